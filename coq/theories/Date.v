(* Date.v — DATE_ADD / DATE_SUBTRACT / DATE_DIFF over fixed-length units and the
   RFC 3339 rendering / parsing of instants (pkg/stdlib/datetime/unit.go
   AddUnit, Nanosecond; add_subtract.go; diff.go; date.go; pkg/runtime/values/
   date_time.go; Go's time.Time.Add / AddDate / Unix / Nanosecond / Format /
   Parse).
   Definitions only; proofs in Proofs/DateProofs.v. *)
From Ferret Require Export Base.
Open Scope Z_scope.

(* An instant: seconds since 1970-01-01T00:00:00Z and nanoseconds within the
   second (0 <= nsec < 10^9).  The zone of a time.Time is presentation only. *)
Definition instant : Type := (Z * Z)%type.
Definition inst_norm (t : instant) : Prop := 0 <= snd t < 1000000000.
Definition inst_normb (t : instant) : bool := (0 <=? snd t) && (snd t <? 1000000000).
Definition inst_eqb (a b : instant) : bool := (fst a =? fst b) && (snd a =? snd b).
(* Time.After: seconds first, then nanoseconds *)
Definition inst_after (a b : instant) : bool :=
  (fst a >? fst b) || ((fst a =? fst b) && (snd a >? snd b)).
(* the instant as one number of nanoseconds (specification device) *)
Definition inst_ns (t : instant) : Z := fst t * 1000000000 + snd t.

(* int64 arithmetic wraps (time.Duration is an int64 count of nanoseconds) *)
Definition wrap64 (z : Z) : Z := (z + 2 ^ 63) mod 2 ^ 64 - 2 ^ 63.

(* the fixed-length units of datetime.Unit (Month and Year are not fixed-length) *)
Inductive dunit : Type := UMs | USec | UMin | UHour | UDay | UWeek.

(* Unit.Nanosecond(): the float64 table of unit.go, all entries integers *)
Definition unit_ns (u : dunit) : Z :=
  match u with
  | UMs => 1000000 | USec => 1000000000 | UMin => 60000000000
  | UHour => 3600000000000 | UDay => 86400000000000 | UWeek => 604800000000000
  end.

(* Time.Add(d): d / 1e9 and d % 1e9 truncate towards zero; the nanosecond field
   is brought back into [0, 1e9).  (The int64 seconds counter of time.Time
   counts from year 1 and cannot overflow for the instants considered.) *)
Definition time_add (t : instant) (d : Z) : instant :=
  let dsec := Z.quot d 1000000000 in
  let n := snd t + Z.rem d 1000000000 in
  if n >=? 1000000000 then (fst t + dsec + 1, n - 1000000000)
  else if n <? 0 then (fst t + dsec - 1, n + 1000000000)
  else (fst t + dsec, n).

(* Time.AddDate(0, 0, days) in UTC or a fixed zone: the calendar day moves by
   [days], the clock reading stays: exactly days * 86400 seconds *)
Definition add_days (t : instant) (days : Z) : instant := (fst t + 86400 * days, snd t).

(* AddUnit(tm, amount, u): below Day the amount is multiplied as a Duration
   (int64, wraps on overflow); Day and Week go through AddDate (amount*7 is an
   int multiplication and wraps as well) *)
Definition add_unit (t : instant) (amount : Z) (u : dunit) : instant :=
  match u with
  | UDay => add_days t amount
  | UWeek => add_days t (wrap64 (amount * 7))
  | _ => time_add t (wrap64 (wrap64 amount * unit_ns u))
  end.

Definition date_add (t : instant) (n : Z) (u : dunit) : instant := add_unit t n u.
(* DATE_SUBTRACT: AddUnit(tm, -1*int(amount), u) *)
Definition date_sub (t : instant) (n : Z) (u : dunit) : instant := add_unit t (wrap64 (- n)) u.

(* wholeUnits(sec, nsec, unitNsec) of diff.go: how many whole units fit into
   sec seconds and nsec nanoseconds (sec >= 0, 0 <= nsec < 10^9), in int64
   arithmetic.  A unit is a whole number of seconds (integer division of the
   seconds, which truncates; the operands are never negative) or divides a
   second (milliseconds: the product and the sum are int64 and wrap).  The
   divisors are non-zero constants for every unit, so no division faults. *)
Definition whole_units (sec nsec unit_nsec : Z) : Z :=
  if unit_nsec >=? 1000000000 then Z.quot sec (Z.quot unit_nsec 1000000000)
  else wrap64 (wrap64 (sec * Z.quot 1000000000 unit_nsec) + Z.quot nsec unit_nsec).

(* DATE_DIFF(date1, date2, unit) with asFloat = false: 0 for equal instants,
   otherwise the later minus the earlier (so never negative), taken as
   later.Unix() - earlier.Unix() seconds and the difference of the two
   Nanosecond() fields, with a borrow of one second when that is negative;
   then wholeUnits.  No Duration is involved, so nothing saturates.  (The
   asFloat = true result is not modelled.) *)
Definition date_diff (t1 t2 : instant) (u : dunit) : Z :=
  if inst_eqb t1 t2 then 0
  else
    let '(later, earlier) := if inst_after t1 t2 then (t1, t2) else (t2, t1) in
    let sec := wrap64 (fst later - fst earlier) in
    let nsec := snd later - snd earlier in
    if nsec <? 0 then whole_units (wrap64 (sec - 1)) (nsec + 1000000000) (unit_ns u)
    else whole_units sec nsec (unit_ns u).

(* ------------------------------------------------------------------ calendar *)
(* proleptic Gregorian calendar in 400-year eras of 146097 days; March-based
   years inside the era.  [cfd_local doe] = (year of era, month, day) of the
   day [doe] of an era; [dfc_local] is its inverse. *)
Definition cfd_local (doe : Z) : Z * Z * Z :=
  let yoe := (doe - doe / 1460 + doe / 36524 - doe / 146096) / 365 in
  let doy := doe - (365 * yoe + yoe / 4 - yoe / 100) in
  let mp := (5 * doy + 2) / 153 in
  let d := doy - (153 * mp + 2) / 5 + 1 in
  let m := if mp <? 10 then mp + 3 else mp - 9 in
  (yoe, m, d).

Definition dfc_local (yoe m d : Z) : Z :=
  let doy := (153 * (if m >? 2 then m - 3 else m + 9) + 2) / 5 + d - 1 in
  yoe * 365 + yoe / 4 - yoe / 100 + doy.

(* days since 1970-01-01 -> (year, month, day) *)
Definition civil_from_days (z : Z) : Z * Z * Z :=
  let z' := z + 719468 in
  let era := z' / 146097 in
  let doe := z' mod 146097 in
  let '(yoe, m, d) := cfd_local doe in
  (yoe + era * 400 + (if m <=? 2 then 1 else 0), m, d).

Definition days_from_civil (y m d : Z) : Z :=
  let y' := y - (if m <=? 2 then 1 else 0) in
  let era := y' / 400 in
  let yoe := y' mod 400 in
  era * 146097 + dfc_local yoe m d - 719468.

Definition is_leap (y : Z) : bool :=
  (y mod 4 =? 0) && (negb (y mod 100 =? 0) || (y mod 400 =? 0)).
Definition days_in (m y : Z) : Z :=
  if m =? 2 then (if is_leap y then 29 else 28)
  else if (m =? 4) || (m =? 6) || (m =? 9) || (m =? 11) then 30 else 31.

(* ------------------------------------------------------------------ RFC 3339 *)
Definition dig (n : Z) : N := Z.to_N (48 + n mod 10).
Definition digits2 (n : Z) : bytes := [dig (n / 10); dig n].
Definition digits4 (n : Z) : bytes := [dig (n / 1000); dig (n / 100); dig (n / 10); dig n].

(* appendNano with the layout .999999999: most significant digit first, stop
   when the remainder is zero (trailing zeros are not written); [k] digits left *)
Fixpoint frac_digits (k : nat) (v : Z) : bytes :=
  match k with
  | O => []
  | S k' =>
      let p := 10 ^ Z.of_nat k' in
      dig (v / p) :: (if v mod p =? 0 then [] else frac_digits k' (v mod p))
  end.
Definition print_frac (ns : Z) : bytes := if ns =? 0 then [] else 46%N :: frac_digits 9 ns.

Definition print_zone (off : Z) : bytes :=
  if off =? 0 then [90%N]                                     (* Z *)
  else (if off <? 0 then 45%N else 43%N)
       :: digits2 (Z.abs off / 60) ++ [58%N] ++ digits2 (Z.abs off mod 60).

(* Time.Format(RFC3339Nano) / MarshalJSON of an instant shown in the zone with
   offset [off] minutes (0 = UTC).  None when the local year is outside
   0..9999 (Go then writes more than four digits, which is not RFC 3339). *)
Definition rfc3339_print (t : instant) (off : Z) : option bytes :=
  let loc := fst t + off * 60 in
  let days := loc / 86400 in
  let sod := loc mod 86400 in
  let '(y, m, d) := civil_from_days days in
  if (0 <=? y) && (y <=? 9999) then
    Some (digits4 y ++ [45%N] ++ digits2 m ++ [45%N] ++ digits2 d ++ [84%N]
          ++ digits2 (sod / 3600) ++ [58%N] ++ digits2 (sod mod 3600 / 60) ++ [58%N]
          ++ digits2 (sod mod 60) ++ print_frac (snd t) ++ print_zone off)
  else None.

Definition digit (c : N) : option Z :=
  if ((48 <=? c) && (c <=? 57))%N then Some (Z.of_N c - 48) else None.
Definition num2 (a b : N) : option Z :=
  match digit a, digit b with Some x, Some y => Some (x * 10 + y) | _, _ => None end.
Definition num4 (a b c d : N) : option Z :=
  match num2 a b, num2 c d with Some x, Some y => Some (x * 100 + y) | _, _ => None end.
Definition in_range (lo hi : Z) (o : option Z) : option Z :=
  match o with Some x => if (lo <=? x) && (x <=? hi) then Some x else None | None => None end.

(* the digits after the point: the first [k] of them carry weight, further
   digits are dropped (parseNanoseconds keeps nine) *)
Fixpoint parse_frac (k : nat) (s : bytes) (acc : Z) : Z * bytes :=
  match s with
  | [] => (acc, [])
  | c :: r =>
      match digit c with
      | None => (acc, s)
      | Some x =>
          match k with
          | O => parse_frac O r acc
          | S k' => parse_frac k' r (acc + x * 10 ^ Z.of_nat k')
          end
      end
  end.

(* 'Z', or sign hh ':' mm with hh <= 23 and mm <= 59 and nothing after it;
   the offset in minutes *)
Definition parse_zone (s : bytes) : option Z :=
  match s with
  | [90%N] => Some 0
  | sg :: h0 :: h1 :: c :: m0 :: m1 :: [] =>
      match in_range 0 23 (num2 h0 h1), in_range 0 59 (num2 m0 m1) with
      | Some hh, Some mm =>
          if (c =? 58)%N then
            if (sg =? 43)%N then Some (hh * 60 + mm)
            else if (sg =? 45)%N then Some (- (hh * 60 + mm))
            else None
          else None
      | _, _ => None
      end
  | _ => None
  end.

(* time.Parse(time.RFC3339, s) as its parseRFC3339 fast path reads it: fixed
   columns, year 0..9999, month 1..12, day within the month, 23:59:59 at most,
   optional fraction, 'Z' or a numeric offset.  Result: instant and offset
   (minutes).  Texts only the lenient general parser accepts are None here. *)
Definition rfc3339_parse (s : bytes) : option (instant * Z) :=
  match s with
  | y0 :: y1 :: y2 :: y3 :: c1 :: m0 :: m1 :: c2 :: d0 :: d1 :: ct
       :: h0 :: h1 :: c3 :: i0 :: i1 :: c4 :: s0 :: s1 :: rest =>
      match in_range 0 9999 (num4 y0 y1 y2 y3), in_range 1 12 (num2 m0 m1) with
      | Some y, Some m =>
          match in_range 1 (days_in m y) (num2 d0 d1), in_range 0 23 (num2 h0 h1),
                in_range 0 59 (num2 i0 i1), in_range 0 59 (num2 s0 s1) with
          | Some d, Some hh, Some mi, Some ss =>
              if ((c1 =? 45) && (c2 =? 45) && (ct =? 84) && (c3 =? 58) && (c4 =? 58))%N then
                let '(ns, rest') :=
                  match rest with
                  | p :: c :: r => if (p =? 46)%N && (match digit c with Some _ => true | None => false end)
                                   then parse_frac 9 (c :: r) 0 else (0, rest)
                  | _ => (0, rest)
                  end in
                match parse_zone rest' with
                | Some off =>
                    Some ((days_from_civil y m d * 86400 + hh * 3600 + mi * 60 + ss - off * 60, ns), off)
                | None => None
                end
              else None
          | _, _, _, _ => None
          end
      | _, _ => None
      end
  | _ => None
  end.

(* the guard of the round trip: the year shown (in the zone of the rendering)
   is 1..9999, the offset is a whole number of minutes within a day *)
Definition rfc3339_guard (t : instant) (off : Z) : bool :=
  let '(y, _, _) := civil_from_days ((fst t + off * 60) / 86400) in
  (1 <=? y) && (y <=? 9999) && (-1440 <? off) && (off <? 1440) && inst_normb t.
