(* Value.v — the FQL run-time value universe (pkg/runtime/values) as data.
   Definitions only. *)
From Ferret Require Export Base.

(* VFloat carries the 64 IEEE-754 bits; VDate = (unix seconds, nanoseconds,
   zone offset in minutes as time.GobEncode stores it: -1 for UTC).
   VObj is an insertion-ordered association list; a Go map has no duplicate
   keys (wf below), and nothing observable may depend on the order. *)
Inductive value : Type :=
| VNone
| VBool (b : bool)
| VInt (z : Z)
| VFloat (bits : N)
| VStr (s : bytes)
| VDate (sec nsec off : Z)
| VArr (l : list value)
| VObj (m : list (bytes * value))
| VBin (b : bytes).

(* ---- IEEE-754 binary64 decoding: an order embedding of finite doubles into Z *)
Definition f_sign (b : N) : bool := N.testbit b 63.
Definition f_exp (b : N) : N := N.land (N.shiftr b 52) 2047.
Definition f_man (b : N) : N := N.land b (N.ones 52).
Definition f_finite (b : N) : bool := (f_exp b <? 2047)%N && (b <? 2 ^ 64)%N.
(* |f| * 2^1074 as an integer *)
Definition f_mag (b : N) : Z :=
  if (f_exp b =? 0)%N then Z.of_N (f_man b)
  else Z.shiftl (Z.of_N (2 ^ 52 + f_man b)) (Z.of_N (f_exp b) - 1).
Definition fscaled (b : N) : Z := if f_sign b then - f_mag b else f_mag b.


(* Go's float64(int64): exact below 2^53, round-to-nearest-even above *)
Definition round53 (z : Z) : Z :=
  let a := Z.abs z in
  if a <=? 2 ^ 53 then z
  else
    let sh := Z.log2 a - 52 in
    let q := a / 2 ^ sh in
    let r := a mod 2 ^ sh in
    let half := 2 ^ (sh - 1) in
    let q' := if r <? half then q
              else if half <? r then q + 1
              else if Z.even q then q else q + 1 in
    Z.sgn z * (q' * 2 ^ sh).

Definition int_key (z : Z) : Z := Z.shiftl z 1074.
Definition int_as_float_key (z : Z) : Z := Z.shiftl (round53 z) 1074.

(* ---- type ranks (values/types/helpers.go typeComparisonTable) *)
Definition type_rank (v : value) : Z :=
  match v with
  | VNone => 0 | VBool _ => 1 | VInt _ => 2 | VFloat _ => 3 | VStr _ => 4
  | VDate _ _ _ => 5 | VArr _ => 6 | VObj _ => 7 | VBin _ => 8
  end.

(* the FQL type() name; used by Hash *)
Definition type_name (v : value) : bytes :=
  match v with
  | VNone => bs "none" | VBool _ => bs "boolean" | VInt _ => bs "int"
  | VFloat _ => bs "float" | VStr _ => bs "string" | VDate _ _ _ => bs "date_time"
  | VArr _ => bs "array" | VObj _ => bs "object" | VBin _ => bs "binary"
  end.

(* ---- size, well-formedness *)
Fixpoint vsize (v : value) : nat :=
  match v with
  | VArr l => S (fold_right (fun x n => vsize x + n)%nat O l)
  | VObj m => S (fold_right (fun kv n => vsize (snd kv) + n)%nat O m)
  | _ => 1%nat
  end.

Fixpoint nodup_keys (ks : list bytes) : bool :=
  match ks with
  | [] => true
  | k :: r => negb (existsb (bytes_eqb k) r) && nodup_keys r
  end.

(* wfb: floats finite, bytes are bytes, no duplicate object keys,
   nanoseconds in range.  [int_ok] is the ±2^53 guard of C07. *)
Fixpoint wfb (v : value) : bool :=
  match v with
  | VNone | VBool _ => true
  | VInt z => (- 2 ^ 63 <=? z) && (z <? 2 ^ 63)
  | VFloat b => f_finite b
  | VStr s => wf_bytesb s
  | VDate s n o => (0 <=? n) && (n <? 1000000000)
  | VArr l => forallb wfb l
  | VObj m => forallb (fun kv => wf_bytesb (fst kv) && wfb (snd kv)) m
              && nodup_keys (map fst m)
  | VBin b => wf_bytesb b
  end.

Fixpoint ints_within_2p53 (v : value) : bool :=
  match v with
  | VInt z => Z.abs z <=? 2 ^ 53
  | VArr l => forallb ints_within_2p53 l
  | VObj m => forallb (fun kv => ints_within_2p53 (snd kv)) m
  | _ => true
  end.

(* ---- normal form: object members sorted by key (bytewise).  Two values are
   structurally identical (same type, same content, recursively, regardless of
   the insertion order of object members) iff their normal forms are equal. *)
Definition key_leb (a b : bytes * value) : bool :=
  match lexcmp (fst a) (fst b) with Gt => false | _ => true end.

Fixpoint norm (v : value) : value :=
  match v with
  | VArr l => VArr (map norm l)
  | VObj m => VObj (isort key_leb (map (fun kv => (fst kv, norm (snd kv))) m))
  | _ => v
  end.

Fixpoint value_eqb (a b : value) {struct a} : bool :=
  match a, b with
  | VNone, VNone => true
  | VBool x, VBool y => Bool.eqb x y
  | VInt x, VInt y => x =? y
  | VFloat x, VFloat y => (x =? y)%N
  | VStr x, VStr y => bytes_eqb x y
  | VDate s n o, VDate s' n' o' => (s =? s') && (n =? n') && (o =? o')
  | VArr l, VArr l' =>
      (fix go (l : list value) (l' : list value) : bool :=
         match l, l' with
         | [], [] => true
         | x :: xs, y :: ys => value_eqb x y && go xs ys
         | _, _ => false
         end) l l'
  | VObj m, VObj m' =>
      (fix go (m : list (bytes * value)) (m' : list (bytes * value)) : bool :=
         match m, m' with
         | [], [] => true
         | (k, x) :: xs, (k', y) :: ys => bytes_eqb k k' && value_eqb x y && go xs ys
         | _, _ => false
         end) m m'
  | VBin x, VBin y => bytes_eqb x y
  | _, _ => false
  end.

Definition struct_eqb (a b : value) : bool := value_eqb (norm a) (norm b).
Definition struct_eq (a b : value) : Prop := norm a = norm b.
