(* Json.v — (1) the JSON serializer of pkg/runtime/values as the code configures
   jettison v0.7.4 (MarshalOpts(x, NoHTMLEscaping()): map keys sorted by their
   escaped text, double quote, backslash and C0 controls escaped (\n \r \t short, the others
   \u00xx), U+2028/9 escaped, every invalid UTF-8 byte replaced by the six
   characters backslash-ufffd, '<' '>' '&' and DEL left alone; ints in decimal; time as
   RFC 3339 with nanoseconds (jettison's own appendRFC3339Time); []byte as
   base64; floats: the text is an oracle [ff] (strconv shortest round-trip
   printing is not modelled)),
   (2) an RFC 8259 recogniser / parser that also insists on valid UTF-8: the
   specification of "valid UTF-8 JSON" and of "parses back",
   (3) the predicates of C09 evaluated on a parsed text.
   Definitions only; lemmas in Proofs/JsonProofs.v. *)
From Ferret Require Export Value Compare Utf8.
From Ferret Require Import Codec.Base64.
Open Scope Z_scope.

Inductive json : Type :=
| JNull
| JBool (b : bool)
| JNum (m e : Z)                 (* the literal's value is m * 10^e *)
| JStr (s : bytes)
| JArr (l : list json)
| JObj (ms : list (bytes * json)).

(* ------------------------------------------------------------ serializer *)
Definition hexdig (n : N) : N := (if n <? 10 then 48 + n else 87 + n)%N.

Definition esc_ascii (c : N) : bytes :=
  (if c =? 34 then [92; 34] else if c =? 92 then [92; 92]
   else if c =? 10 then [92; 110] else if c =? 13 then [92; 114] else if c =? 9 then [92; 116]
   else if c <? 32 then [92; 117; 48; 48; hexdig (c / 16); hexdig (c mod 16)]
   else [c])%N.

Definition is_ls (u : bytes) : bool := bytes_eqb u [226; 128; 168]%N.   (* U+2028 *)
Definition is_ps (u : bytes) : bool := bytes_eqb u [226; 128; 169]%N.   (* U+2029 *)

(* the six characters of the escapes for U+FFFD, U+2028, U+2029:
   backslash u f f f d, backslash u 2 0 2 8, backslash u 2 0 2 9 *)
Definition esc_fffd : bytes := [92; 117; 102; 102; 102; 100]%N.
Definition esc_2028 : bytes := [92; 117; 50; 48; 50; 56]%N.
Definition esc_2029 : bytes := [92; 117; 50; 48; 50; 57]%N.

Definition esc_unit (u : unit8) : bytes :=
  match u with
  | UBad _ => esc_fffd
  | UOk w =>
      match w with
      | [c] => esc_ascii c
      | _ => if is_ls w then esc_2028 else if is_ps w then esc_2029 else w
      end
  end.

(* appendEscapedBytes *)
Definition esc_string (s : bytes) : bytes := concat (map esc_unit (segs s)).
Definition quote : N := 34%N.
Definition json_string (s : bytes) : bytes := quote :: esc_string s ++ [quote].

(* strconv.AppendInt base 10 *)
Fixpoint dec_go (fuel : nat) (n : N) (acc : bytes) : bytes :=
  match fuel with
  | O => acc
  | S f => if (n <? 10)%N then (48 + n)%N :: acc
           else dec_go f (n / 10)%N ((48 + n mod 10)%N :: acc)
  end.
Definition dec_N (n : N) : bytes := dec_go (S (N.to_nat (N.log2 n))) n [].
Definition dec_Z (z : Z) : bytes :=
  if z <? 0 then 45%N :: dec_N (Z.to_N (- z)) else dec_N (Z.to_N z).

Definition dig (z : Z) : N := (48 + Z.to_N (z mod 10))%N.
Definition dig2 (z : Z) : bytes := [dig (z / 10); dig z].
Definition dig4 (z : Z) : bytes := [dig (z / 1000); dig (z / 100); dig (z / 10); dig z].

(* jettison time.go rdnToYmd (Rata Die, Peter Baum); >> 2 is / 4, >> 14 is / 16384 *)
Definition day_offset (m : Z) : Z :=
  nth (Z.to_nat m) [0; 306; 337; 0; 31; 61; 92; 122; 153; 184; 214; 245; 275] 0.
Definition rdn_to_ymd (rdn : Z) : Z * Z * Z :=
  let Zv := rdn + 306 in
  let H := 100 * Zv - 25 in
  let A := H / 3652425 in
  let B := A - A / 4 in
  let y := (100 * B + H) / 36525 in
  let d := B + Zv - (1461 * y) / 4 in
  let m := (535 * d + 48950) / 16384 in
  if m >? 12 then (y + 1, m - 12, d - day_offset (m - 12)) else (y, m, d - day_offset m).

Definition jettison_epoch : Z := 62135683200.
Definition off_seconds (o : Z) : Z := if o =? -1 then 0 else o * 60.

Fixpoint strip_zeros_rev (r : bytes) : bytes :=
  match r with
  | c :: t => if (c =? 48)%N then strip_zeros_rev t else r
  | [] => []
  end.
Definition frac_text (n : Z) : bytes :=
  if n =? 0 then []
  else 46%N :: rev (strip_zeros_rev (rev
         [dig (n / 100000000); dig (n / 10000000); dig (n / 1000000); dig (n / 100000);
          dig (n / 10000); dig (n / 1000); dig (n / 100); dig (n / 10); dig n])).
Definition zone_text (offsec : Z) : bytes :=
  if offsec =? 0 then [90%N]
  else let zm := Z.quot offsec 60 in           (* Go's / truncates *)
       let z := Z.abs zm in
       (if zm <? 0 then 45%N else 43%N) :: dig2 (z / 60) ++ 58%N :: dig2 (z mod 60).

(* appendRFC3339Time(t, dst, nano=true) without the quotes *)
Definition date_text (sec nsec off : Z) : bytes :=
  let loc := sec + off_seconds off + jettison_epoch in
  let '(y, m, d) := rdn_to_ymd (loc / 86400) in
  let s := loc mod 86400 in
  dig4 y ++ 45%N :: dig2 m ++ 45%N :: dig2 d ++ 84%N :: dig2 (s / 3600) ++ 58%N :: dig2 ((s / 60) mod 60)
    ++ 58%N :: dig2 (s mod 60) ++ frac_text nsec ++ zone_text (off_seconds off).

(* the encoder refuses years outside [0,9999]; the Rata Die arithmetic is only
   meaningful from 0001-01-01 (local) on: the model's domain is years 1..9999 *)
Definition date_ok (sec off : Z) : bool :=
  let rdn := (sec + off_seconds off + jettison_epoch) / 86400 in
  (1 <=? rdn) && (rdn <=? 3652059).

Fixpoint jjoin (parts : list bytes) : bytes :=
  match parts with
  | [] => []
  | [p] => p
  | p :: r => p ++ 44%N :: jjoin r
  end.

(* order on map entries: bytes.Compare of the escaped keys *)
Definition mleb {V} (a b : bytes * V) : bool :=
  match lexcmp (fst a) (fst b) with Gt => false | _ => true end.

Definition member_text (kv : bytes * bytes) : bytes := quote :: fst kv ++ quote :: 58%N :: snd kv.

Section Serializer.
  (* the text strconv prints for a finite float with these bits *)
  Variable ff : N -> bytes.
  (* The member list of a VObj is read as the order in which Go ranges over
     the map (arbitrary); the sort below is stable, sort.Sort is not: for
     entries with equal escaped keys any order can come out, which the model
     reaches through the order of the member list. *)
  Fixpoint to_json (v : value) : bytes :=
    match v with
    | VNone => bs "null"
    | VBool b => if b then bs "true" else bs "false"
    | VInt z => dec_Z z
    | VFloat b => ff b
    | VStr s => json_string s
    | VDate s n o => quote :: date_text s n o ++ [quote]
    | VArr l => 91%N :: jjoin (map to_json l) ++ [93%N]
    | VObj m =>
        123%N :: jjoin (map member_text
                   (isort mleb (map (fun kv => (esc_string (fst kv), to_json (snd kv))) m)))
              ++ [125%N]
    | VBin b => quote :: b64_encode b ++ [quote]
    end.
End Serializer.

(* marshalling fails (error, no bytes) on a non-finite float or a date outside
   the encoder's range *)
Fixpoint marshal_ok (v : value) : bool :=
  match v with
  | VFloat b => f_finite b
  | VDate s _ o => date_ok s o
  | VArr l => forallb marshal_ok l
  | VObj m => forallb (fun kv => marshal_ok (snd kv)) m
  | _ => true
  end.

(* ------------------------------------------------- RFC 8259 parser *)
Definition is_ws (c : N) : bool := ((c =? 32) || (c =? 10) || (c =? 13) || (c =? 9))%N.
Fixpoint skip_ws (s : bytes) : bytes :=
  match s with
  | c :: r => if is_ws c then skip_ws r else s
  | [] => []
  end.
Definition is_digit (c : N) : bool := in_rng 48 57 c.
Fixpoint take_digits (s : bytes) : bytes * bytes :=
  match s with
  | c :: r => if is_digit c then let (d, t) := take_digits r in (c :: d, t) else ([], s)
  | [] => ([], [])
  end.
Definition digits_val (ds : bytes) : Z := fold_left (fun a d => a * 10 + Z.of_N (d - 48)) ds 0.
Definition is_nil {A} (l : list A) : bool := match l with [] => true | _ => false end.

(* number = [ minus ] int [ frac ] [ exp ]; no leading zeros *)
Definition parse_unsigned (neg : bool) (s1 : bytes) : option (Z * Z * bytes) :=
  let (ip, s2) := take_digits s1 in
  match ip with
  | [] => None
  | d0 :: ip' =>
      if (d0 =? 48)%N && negb (is_nil ip') then None
      else
        let '(fp, s3, okf) :=
          match s2 with
          | c :: r => if (c =? 46)%N then let (f, t) := take_digits r in (f, t, negb (is_nil f))
                      else ([], s2, true)
          | [] => ([], s2, true)
          end in
        if negb okf then None
        else
          let '(ex, s4, oke) :=
            match s3 with
            | c :: r =>
                if ((c =? 101) || (c =? 69))%N then
                  let (eneg, r1) := match r with
                                    | c' :: r' => if (c' =? 45)%N then (true, r')
                                                  else if (c' =? 43)%N then (false, r') else (false, r)
                                    | [] => (false, r)
                                    end in
                  let (ed, t) := take_digits r1 in
                  ((if eneg then - digits_val ed else digits_val ed), t, negb (is_nil ed))
                else (0, s3, true)
            | [] => (0, s3, true)
            end in
          if negb oke then None
          else
            let m := digits_val (ip ++ fp) in
            Some ((if neg then - m else m), ex - Z.of_nat (length fp), s4)
  end.

Definition parse_number (s : bytes) : option (Z * Z * bytes) :=
  match s with
  | c :: r => if (c =? 45)%N then parse_unsigned true r else parse_unsigned false s
  | [] => None
  end.

Definition hexv (c : N) : option N :=
  (if in_rng 48 57 c then Some (c - 48)
   else if in_rng 97 102 c then Some (c - 87)
   else if in_rng 65 70 c then Some (c - 55)
   else None)%N.
Definition parse_hex4 (s : bytes) : option (N * bytes) :=
  match s with
  | a :: b :: c :: d :: r =>
      match hexv a, hexv b, hexv c, hexv d with
      | Some a, Some b, Some c, Some d => Some ((a * 4096 + b * 256 + c * 16 + d)%N, r)
      | _, _, _, _ => None
      end
  | _ => None
  end.
Definition simple_escape (e : N) : option N :=
  (if e =? 34 then Some 34 else if e =? 92 then Some 92 else if e =? 47 then Some 47
   else if e =? 98 then Some 8 else if e =? 102 then Some 12 else if e =? 110 then Some 10
   else if e =? 114 then Some 13 else if e =? 116 then Some 9 else None)%N.

(* the characters of a string up to and including the closing quote; the
   result is the decoded content.  Raw bytes must be >= 0x20 and valid UTF-8. *)
Fixpoint parse_str (fuel : nat) (s : bytes) : option (bytes * bytes) :=
  match fuel with
  | O => None
  | S f =>
      let continue (u rest : bytes) :=
        match parse_str f rest with
        | Some (t, r') => Some (u ++ t, r')
        | None => None
        end in
      match s with
      | [] => None
      | c :: r =>
          if (c =? 34)%N then Some ([], r)
          else if (c =? 92)%N then
            match r with
            | [] => None
            | e :: r2 =>
                if (e =? 117)%N then
                  match parse_hex4 r2 with
                  | None => None
                  | Some (cp, r3) =>
                      if in_rng 55296 56319 cp then
                        match r3 with
                        | c1 :: c2 :: r4 =>
                            if ((c1 =? 92) && (c2 =? 117))%N then
                              match parse_hex4 r4 with
                              | Some (lo, r5) =>
                                  if in_rng 56320 57343 lo
                                  then continue (utf8_encode (65536 + (cp - 55296) * 1024 + (lo - 56320))%N) r5
                                  else continue replacement r3
                              | None => None
                              end
                            else continue replacement r3
                        | _ => continue replacement r3
                        end
                      else if in_rng 56320 57343 cp then continue replacement r3
                      else continue (utf8_encode cp) r3
                  end
                else
                  match simple_escape e with
                  | Some b => continue [b] r2
                  | None => None
                  end
            end
          else if (c <? 32)%N then None
          else
            match utf8_seq s with
            | O => None
            | S k => continue (c :: firstn k r) (skipn k r)
            end
      end
  end.

Fixpoint expect (lit s : bytes) : option bytes :=
  match lit with
  | [] => Some s
  | c :: lit' => match s with
                 | x :: r => if (x =? c)%N then expect lit' r else None
                 | [] => None
                 end
  end.

Definition head_is (c : N) (s : bytes) : option bytes :=
  match s with
  | x :: r => if (x =? c)%N then Some r else None
  | [] => None
  end.

Fixpoint parse_value (fuel : nat) (s : bytes) {struct fuel} : option (json * bytes) :=
  match fuel with
  | O => None
  | S f =>
      match skip_ws s with
      | [] => None
      | c :: r =>
          if (c =? 110)%N then match expect (bs "ull") r with Some r' => Some (JNull, r') | None => None end
          else if (c =? 116)%N then match expect (bs "rue") r with Some r' => Some (JBool true, r') | None => None end
          else if (c =? 102)%N then match expect (bs "alse") r with Some r' => Some (JBool false, r') | None => None end
          else if (c =? 34)%N then
            match parse_str (S (length r)) r with Some (t, r') => Some (JStr t, r') | None => None end
          else if (c =? 91)%N then
            match head_is 93 (skip_ws r) with
            | Some r' => Some (JArr [], r')
            | None => match parse_elems f r with Some (l, r') => Some (JArr l, r') | None => None end
            end
          else if (c =? 123)%N then
            match head_is 125 (skip_ws r) with
            | Some r' => Some (JObj [], r')
            | None => match parse_members f r with Some (l, r') => Some (JObj l, r') | None => None end
            end
          else if (c =? 45)%N || is_digit c then
            match parse_number (c :: r) with Some (m, e, r') => Some (JNum m e, r') | None => None end
          else None
      end
  end
with parse_elems (fuel : nat) (s : bytes) {struct fuel} : option (list json * bytes) :=
  match fuel with
  | O => None
  | S f =>
      match parse_value f s with
      | None => None
      | Some (j, r) =>
          match skip_ws r with
          | [] => None
          | c :: r' =>
              if (c =? 44)%N then
                match parse_elems f r' with Some (l, r'') => Some (j :: l, r'') | None => None end
              else if (c =? 93)%N then Some ([j], r')
              else None
          end
      end
  end
with parse_members (fuel : nat) (s : bytes) {struct fuel} : option (list (bytes * json) * bytes) :=
  match fuel with
  | O => None
  | S f =>
      match head_is 34 (skip_ws s) with
      | None => None
      | Some r =>
          match parse_str (S (length r)) r with
          | None => None
          | Some (k, r1) =>
              match head_is 58 (skip_ws r1) with
              | None => None
              | Some r2 =>
                  match parse_value f r2 with
                  | None => None
                  | Some (j, r3) =>
                      match skip_ws r3 with
                      | [] => None
                      | c :: r4 =>
                          if (c =? 44)%N then
                            match parse_members f r4 with
                            | Some (l, r5) => Some ((k, j) :: l, r5)
                            | None => None
                            end
                          else if (c =? 125)%N then Some ([(k, j)], r4)
                          else None
                      end
                  end
              end
          end
      end
  end.

(* a complete JSON text: one value, optional white space around it *)
Definition parse_json (s : bytes) : option json :=
  match parse_value (S (length s)) s with
  | Some (j, r) => if is_nil (skip_ws r) then Some j else None
  | None => None
  end.
Definition json_valid (s : bytes) : bool :=
  match parse_json s with Some _ => true | None => false end.

(* ---------- what a reader gets back: the expected parse of to_json v *)
Section Jsonify.
  Variable ff : N -> bytes.
  Fixpoint jsonify (v : value) : json :=
    match v with
    | VNone => JNull
    | VBool b => JBool b
    | VInt z => JNum z 0
    | VFloat b => match parse_number (ff b) with Some (m, e, _) => JNum m e | None => JNull end
    | VStr s => JStr (coerce s)
    | VDate s n o => JStr (date_text s n o)
    | VArr l => JArr (map jsonify l)
    | VObj m =>
        JObj (map snd (isort mleb
                (map (fun kv => (esc_string (fst kv), (coerce (fst kv), jsonify (snd kv)))) m)))
    | VBin b => JStr (b64_encode b)
    end.
End Jsonify.

(* ------------- "the parsed text denotes the value" (faithfulness, decided) *)
Definition pow10 (n : Z) : Z := 10 ^ n.

(* m * 10^e = z *)
Definition dec_is_int (m e z : Z) : bool :=
  if 0 <=? e then m * pow10 e =? z else m =? z * pow10 (- e).

(* the decimal m * 10^e rounds (to nearest, ties to even) to the double with
   bits b: it lies between the midpoints towards the two neighbouring doubles *)
Definition rounds_to (m e : Z) (b : N) : bool :=
  let mb := (b mod 9223372036854775808)%N in          (* magnitude bits *)
  if (mb =? 0)%N then m =? 0
  else
    let a := f_mag mb in
    let lo := f_mag (mb - 1)%N in
    let hi := f_mag (mb + 1)%N in
    let even := N.even mb in
    let am := Z.abs m in
    let '(L, s) := if 0 <=? e then (2 * am * pow10 e * 2 ^ 1074, 1)
                   else (2 * am * 2 ^ 1074, pow10 (- e)) in
    negb (m =? 0) && Bool.eqb (m <? 0) (f_sign b)
    && (if even then (a + lo) * s <=? L else (a + lo) * s <? L)
    && (if even then L <=? (a + hi) * s else L <? (a + hi) * s).

(* RFC 3339 date-time -> (unix seconds, nanoseconds, zone offset in minutes) *)
Definition all_digits (s : bytes) : bool := forallb is_digit s.
Definition num_of (s : bytes) : option Z := if all_digits s && negb (is_nil s) then Some (digits_val s) else None.
Definition days_from_civil (y m d : Z) : Z :=
  let y' := if m <=? 2 then y - 1 else y in
  let era := y' / 400 in
  let yoe := y' - era * 400 in
  let mp := (m + 9) mod 12 in
  let doy := (153 * mp + 2) / 5 + d - 1 in
  let doe := yoe * 365 + yoe / 4 - yoe / 100 + doy in
  era * 146097 + doe - 719468.
Definition pad9 (f : bytes) : Z := digits_val (firstn 9 (f ++ repeat 48%N 9)).
Definition parse_rfc3339 (s : bytes) : option (Z * Z * Z) :=
  match num_of (firstn 4 s), head_is 45 (skipn 4 s) with
  | Some y, Some s1 =>
    match num_of (firstn 2 s1), head_is 45 (skipn 2 s1) with
    | Some mo, Some s2 =>
      match num_of (firstn 2 s2), head_is 84 (skipn 2 s2) with
      | Some d, Some s3 =>
        match num_of (firstn 2 s3), head_is 58 (skipn 2 s3) with
        | Some h, Some s4 =>
          match num_of (firstn 2 s4), head_is 58 (skipn 2 s4) with
          | Some mi, Some s5 =>
            match num_of (firstn 2 s5) with
            | Some sc =>
              let s6 := skipn 2 s5 in
              let '(fr, s7, okf) := match head_is 46 s6 with
                                    | Some t => let (f, t') := take_digits t in (f, t', negb (is_nil f) && (length f <=? 9)%nat)
                                    | None => ([], s6, true)
                                    end in
              let zone := match s7 with
                          | [c] => if (c =? 90)%N then Some 0 else None
                          | c :: t =>
                              match num_of (firstn 2 t), head_is 58 (skipn 2 t), num_of (skipn 3 t) with
                              | Some zh, Some _, Some zm =>
                                  if (length t =? 5)%nat then
                                    if (c =? 43)%N then Some (zh * 60 + zm)
                                    else if (c =? 45)%N then Some (- (zh * 60 + zm)) else None
                                  else None
                              | _, _, _ => None
                              end
                          | [] => None
                          end in
              match zone with
              | Some off =>
                  if okf && (1 <=? mo) && (mo <=? 12) && (1 <=? d) && (d <=? 31) && (h <=? 23) && (mi <=? 59) && (sc <=? 59)
                  then Some (days_from_civil y mo d * 86400 + h * 3600 + mi * 60 + sc - off * 60, pad9 fr, off)
                  else None
              | None => None
              end
            | None => None
            end
          | _, _ => None
          end
        | _, _ => None
        end
      | _, _ => None
      end
    | _, _ => None
    end
  | _, _ => None
  end.

Fixpoint assoc {V} (k : bytes) (m : list (bytes * V)) : option V :=
  match m with
  | [] => None
  | (k', v) :: r => if bytes_eqb k k' then Some v else assoc k r
  end.

Fixpoint denotesb (j : json) (v : value) {struct j} : bool :=
  match j, v with
  | JNull, VNone => true
  | JBool a, VBool b => Bool.eqb a b
  | JNum m e, VInt z => dec_is_int m e z
  | JNum m e, VFloat b => rounds_to m e b
  | JStr s, VStr t => bytes_eqb s t
  | JStr s, VDate sec n o =>
      match parse_rfc3339 s with
      | Some (sec', n', off) => (sec' =? sec) && (n' =? n) && (off =? (if o =? -1 then 0 else o))
      | None => false
      end
  | JStr s, VBin b => match b64_decode s with Some b' => bytes_eqb b b' | None => false end
  | JArr js, VArr vs =>
      (fix go (js : list json) (vs : list value) : bool :=
         match js, vs with
         | [], [] => true
         | j :: js', v :: vs' => denotesb j v && go js' vs'
         | _, _ => false
         end) js vs
  | JObj ms, VObj m =>
      Nat.eqb (length ms) (length m) && nodup_keys (map fst ms) &&
      (fix go (ms : list (bytes * json)) : bool :=
         match ms with
         | [] => true
         | (k, j) :: r => match assoc k m with Some v => denotesb j v | None => false end && go r
         end) ms
  | _, _ => false
  end.

(* ------------- the other predicates of C09 on a parsed text *)
Fixpoint strictly_sorted (ks : list bytes) : bool :=
  match ks with
  | a :: ((b :: _) as r) => (match lexcmp a b with Lt => true | _ => false end) && strictly_sorted r
  | _ => true
  end.
(* members in sorted key order: by the key itself, or by the key's escaped
   text (what the encoder compares; differs only for keys that need escapes) *)
Fixpoint keys_sorted (j : json) : bool :=
  match j with
  | JArr l => forallb keys_sorted l
  | JObj ms =>
      (strictly_sorted (map fst ms) || strictly_sorted (map (fun kv => esc_string (fst kv)) ms))
      && forallb (fun kv => keys_sorted (snd kv)) ms
  | _ => true
  end.

Definition is_markup (c : N) : bool := ((c =? 60) || (c =? 62) || (c =? 38))%N.
Definition count_markup (s : bytes) : nat := length (filter is_markup s).
Fixpoint value_markup (v : value) : nat :=
  match v with
  | VStr s => count_markup s
  | VArr l => fold_right (fun x n => value_markup x + n)%nat O l
  | VObj m => fold_right (fun kv n => count_markup (fst kv) + value_markup (snd kv) + n)%nat O m
  | _ => O
  end.

(* no two keys of one object have the same escaped text (true whenever the
   keys are distinct valid UTF-8 strings; can fail for invalid UTF-8 keys) *)
Fixpoint esc_keys_unique (v : value) : bool :=
  match v with
  | VArr l => forallb esc_keys_unique l
  | VObj m => nodup_keys (map (fun kv => esc_string (fst kv)) m)
              && forallb (fun kv => esc_keys_unique (snd kv)) m
  | _ => true
  end.

(* the RFC 3339 text of every date inside v reads back as the same instant,
   nanoseconds and zone offset (decidable per value) *)
Definition date_reads_back (s n o : Z) : bool :=
  match parse_rfc3339 (date_text s n o) with
  | Some (s', n', off) => (s' =? s) && (n' =? n) && (off =? (if o =? -1 then 0 else o))
  | None => false
  end.
Fixpoint dates_read_back (v : value) : bool :=
  match v with
  | VDate s n o => date_reads_back s n o
  | VArr l => forallb dates_read_back l
  | VObj m => forallb (fun kv => dates_read_back (snd kv)) m
  | _ => true
  end.

Fixpoint strings_valid (v : value) : bool :=
  match v with
  | VStr s => valid_utf8 s
  | VArr l => forallb strings_valid l
  | VObj m => forallb (fun kv => valid_utf8 (fst kv) && strings_valid (snd kv)) m
  | _ => true
  end.
