(* StdObjects.v — value-level mirrors of pkg/stdlib/objects/{keys,values,has,
   merge,merge_recursive,keep_keys,zip}.go and their specifications (C16).
   Definitions only.

   An object is an association list without duplicate keys (Value.wfb); the
   list order stands for the arbitrary order in which Go ranges over the map,
   so every result that depends on it is compared up to permutation, and
   object results are compared up to member order.  Clone() is the identity
   on values (aliasing is the subject of C15 / Heap.v, not of this file). *)
From Ferret Require Export StdArrays.

Definition members (v : value) : list (bytes * value) :=
  match v with VObj m => m | _ => [] end.

Fixpoint obj_get (k : bytes) (m : list (bytes * value)) : option value :=
  match m with
  | [] => None
  | (k', v) :: r => if bytes_eqb k' k then Some v else obj_get k r
  end.
(* Object.Set: m[k] = v *)
Fixpoint obj_set (k : bytes) (v : value) (m : list (bytes * value)) : list (bytes * value) :=
  match m with
  | [] => [(k, v)]
  | (k', v') :: r => if bytes_eqb k' k then (k', v) :: r else (k', v') :: obj_set k v r
  end.
Definition obj_has (k : bytes) (m : list (bytes * value)) : bool :=
  match obj_get k m with Some _ => true | None => false end.

Definition is_str (v : value) : bool := match v with VStr _ => true | _ => false end.
Definition str_of (v : value) : bytes := match v with VStr s => s | _ => [] end.

Definition bytes_leb (a b : bytes) : bool := match lexcmp a b with Gt => false | _ => true end.
Definition sort_keys (ks : list bytes) : list bytes := isort bytes_leb ks.

(* ------------------------------------------------------------------ *)
Definition m_keys (args : list value) : res :=
  match args with
  | [VObj m] => Ok (VArr (map (fun kv => VStr (fst kv)) m))
  | [VObj m; VBool s] =>
      let ks := map fst m in
      Ok (VArr (map VStr (if s then sort_keys ks else ks)))
  | _ => Err
  end.

Definition m_values (args : list value) : res :=
  match args with
  | [VObj m] => Ok (VArr (map snd m))
  | _ => Err
  end.

Definition m_has (args : list value) : res :=
  match args with
  | [VObj m; VStr k] => Ok (VBool (obj_has k m))
  | _ => Err
  end.

(* MERGE: a single array argument stands for the list of objects; every
   element must be an object; members are Set left to right *)
Definition merge_two (acc m : list (bytes * value)) : list (bytes * value) :=
  fold_left (fun a kv => obj_set (fst kv) (snd kv) a) m acc.
Definition merge_all (objs : list value) : list (bytes * value) :=
  fold_left (fun acc o => merge_two acc (members o)) objs [].
Definition m_merge (args : list value) : res :=
  if arity_ge 1 args then
    let objs := match args with [VArr l] => l | _ => args end in
    if forallb is_obj objs then Ok (VObj (merge_all objs)) else Err
  else Err.

(* merge_recursive.go merge(src, dst): for every member of dst, merged with
   the member of src of the same key when both exist, stored into src *)
Fixpoint mr_merge (src dst : value) {struct dst} : value :=
  match src, dst with
  | VObj s, VObj d =>
      match d with
      | [] => src
      | _ :: _ =>
          VObj ((fix go (dm : list (bytes * value)) (s : list (bytes * value)) {struct dm}
                   : list (bytes * value) :=
                   match dm with
                   | [] => s
                   | (k, v) :: r =>
                       let v' := match obj_get k s with
                                 | Some sv => mr_merge sv v
                                 | None => v
                                 end in
                       go r (obj_set k v' s)
                   end) d s)
      end
  | _, _ => dst
  end.
Definition m_merge_recursive (args : list value) : res :=
  if arity_ge 1 args && forallb is_obj args then
    Ok (fold_left mr_merge args (VObj []))
  else Err.

(* KEEP_KEYS: keys are the remaining arguments, or the elements of a single
   array argument; all must be strings *)
Definition keep_loop (m : list (bytes * value)) (keys : list value) : list (bytes * value) :=
  fold_left (fun acc kv => match obj_get (str_of kv) m with
                           | Some v => obj_set (str_of kv) v acc
                           | None => acc
                           end) keys [].
Definition m_keep_keys (args : list value) : res :=
  match args with
  | VObj m :: rest =>
      if arity_ge 2 args then
        let keys := match rest with [VArr l] => l | _ => rest end in
        if forallb is_str keys then Ok (VObj (keep_loop m keys)) else Err
      else Err
  | _ => Err
  end.

(* ZIP: same length required, keys must be strings, the first value of a
   repeated key wins *)
Fixpoint zip_loop (ks vs : list value) (idx : Z) (allvs : list value) (seen : list bytes)
                  (acc : list (bytes * value)) : option (list (bytes * value)) :=
  match ks with
  | [] => Some acc
  | k :: r =>
      let kb := str_of k in
      if existsb (bytes_eqb kb) seen then zip_loop r vs (idx + 1) allvs seen acc
      else match arr_get allvs idx with
           | Ok v => zip_loop r vs (idx + 1) allvs (kb :: seen) (obj_set kb v acc)
           | _ => None
           end
  end.
Definition m_zip (args : list value) : res :=
  match args with
  | [VArr ks; VArr vs] =>
      if negb (Nat.eqb (List.length ks) (List.length vs)) then Err
      else if negb (forallb is_str ks) then Err
      else match zip_loop ks vs 0 vs [] [] with Some m => Ok (VObj m) | None => Panic end
  | _ => Err
  end.

(* ================================================================== *)
(* Specifications                                                      *)

Definition s_keys (args : list value) : sres :=
  match args with
  | [VObj m] => SPerm (map (fun kv => VStr (fst kv)) m)
  | [VObj m; VBool s] =>
      if s then SVal (VArr (map VStr (sort_keys (map fst m))))
      else SPerm (map (fun kv => VStr (fst kv)) m)
  | _ => SUnspec
  end.
Definition s_values (args : list value) : sres :=
  match args with [VObj m] => SPerm (map snd m) | _ => SUnspec end.
Definition s_has (args : list value) : sres :=
  match args with
  | [VObj m; VStr k] => SVal (VBool (existsb (bytes_eqb k) (map fst m)))
  | _ => SUnspec
  end.

(* all keys, first occurrence only *)
Fixpoint dedup_keys (ks : list bytes) : list bytes :=
  match ks with
  | [] => []
  | k :: r => k :: filter (fun k' => negb (bytes_eqb k' k)) (dedup_keys r)
  end.
(* the value of key k in the last object that has it *)
Fixpoint last_binding (k : bytes) (objs : list (list (bytes * value))) : option value :=
  match objs with
  | [] => None
  | m :: r => match last_binding k r with
              | Some v => Some v
              | None => obj_get k m
              end
  end.
Definition merge_spec (objs : list (list (bytes * value))) : list (bytes * value) :=
  flat_map (fun k => match last_binding k objs with Some v => [(k, v)] | None => [] end)
           (dedup_keys (concat (map (map fst) objs))).
Definition objects_of (args : list value) : option (list (list (bytes * value))) :=
  if arity_ge 1 args then
    let objs := match args with [VArr l] => l | _ => args end in
    if forallb is_obj objs then Some (map members objs) else None
  else None.
Definition s_merge (args : list value) : sres :=
  match objects_of args with Some ms => SVal (VObj (merge_spec ms)) | None => SUnspec end.

(* reference deep merge of two values: both objects -> key-wise, the keys of
   either; otherwise the later value.  Recursion on fuel (vsize bounds it). *)
Fixpoint deep_merge (fuel : nat) (a b : value) : value :=
  match fuel with
  | O => b
  | S f =>
      match a, b with
      | VObj ma, VObj mb =>
          VObj (flat_map (fun k =>
                  match obj_get k ma, obj_get k mb with
                  | Some x, Some y => [(k, deep_merge f x y)]
                  | Some x, None => [(k, x)]
                  | None, Some y => [(k, y)]
                  | None, None => []
                  end) (dedup_keys (map fst ma ++ map fst mb)))
      | _, _ => b
      end
  end.
Definition deep_merge_all (objs : list value) : value :=
  fold_left (fun acc o => deep_merge (vsize acc + vsize o) acc o) objs (VObj []).
Definition s_merge_recursive (args : list value) : sres :=
  if arity_ge 1 args && forallb is_obj args then SVal (deep_merge_all args) else SUnspec.

Definition s_keep_keys (args : list value) : sres :=
  match args with
  | VObj m :: rest =>
      if arity_ge 2 args then
        let keys := match rest with [VArr l] => l | _ => rest end in
        if forallb is_str keys then
          SVal (VObj (filter (fun kv => existsb (bytes_eqb (fst kv)) (map str_of keys)) m))
        else SUnspec
      else SUnspec
  | _ => SUnspec
  end.

(* first value for each key *)
Fixpoint zip_spec (ks : list bytes) (vs : list value) : list (bytes * value) :=
  match ks, vs with
  | k :: kr, v :: vr => (k, v) :: filter (fun kv => negb (bytes_eqb (fst kv) k)) (zip_spec kr vr)
  | _, _ => []
  end.
Definition s_zip (args : list value) : sres :=
  match args with
  | [VArr ks; VArr vs] =>
      if negb (Nat.eqb (List.length ks) (List.length vs)) then SErr
      else if forallb is_str ks then SVal (VObj (zip_spec (map str_of ks) vs)) else SUnspec
  | _ => SUnspec
  end.
