(* Base.v — shared definitions for every model file: byte strings, hex input,
   lexicographic comparison, small list utilities.  Model files contain
   definitions only; lemmas live under Proofs/. *)
From Coq Require Export String Ascii.
From Coq Require Export List ZArith NArith Bool.
Export ListNotations.
Open Scope Z_scope.

(* A Go string / []byte is a list of bytes, each byte an N below 256. *)
Definition bytes := list N.

Definition wf_bytes (s : bytes) : Prop := Forall (fun b => (b < 256)%N) s.
Definition wf_bytesb (s : bytes) : bool := forallb (fun b => (b <? 256)%N) s.

(* hex input used by the harness-written case files: hx "616263" = [97;98;99] *)
Definition hexval (c : ascii) : N :=
  let n := N_of_ascii c in
  if (n <? 58)%N then (n - 48)%N          (* '0'..'9' *)
  else if (n <? 71)%N then (n - 55)%N     (* 'A'..'F' *)
  else (n - 87)%N.                        (* 'a'..'f' *)

Fixpoint hx (s : string) : bytes :=
  match s with
  | String a (String b r) => (hexval a * 16 + hexval b)%N :: hx r
  | _ => []
  end.

(* text of an ASCII Coq string as bytes (for readable constants in models) *)
Fixpoint bs (s : string) : bytes :=
  match s with
  | EmptyString => []
  | String a r => N_of_ascii a :: bs r
  end.

(* strings.Compare / bytes.Compare: lexicographic on unsigned bytes *)
Fixpoint lexcmp (a b : bytes) : comparison :=
  match a, b with
  | [], [] => Eq
  | [], _ :: _ => Lt
  | _ :: _, [] => Gt
  | x :: xs, y :: ys =>
      match N.compare x y with
      | Eq => lexcmp xs ys
      | c => c
      end
  end.

Definition bytes_eqb (a b : bytes) : bool :=
  match lexcmp a b with Eq => true | _ => false end.

Definition cmp_to_Z (c : comparison) : Z :=
  match c with Lt => -1 | Eq => 0 | Gt => 1 end.

Definition sgn (z : Z) : Z := Z.sgn z.

(* insertion sort, used as the specification-level sort everywhere (stable) *)
Section Sort.
  Context {A : Type} (leb : A -> A -> bool).
  Fixpoint insert_sorted (x : A) (l : list A) : list A :=
    match l with
    | [] => [x]
    | y :: ys => if leb x y then x :: l else y :: insert_sorted x ys
    end.
  (* stable: an element is inserted before the first strictly greater one,
     when the list is processed right-to-left *)
  Fixpoint isort (l : list A) : list A :=
    match l with
    | [] => []
    | x :: xs => insert_sorted x (isort xs)
    end.
End Sort.

Fixpoint index_of_aux {A} (p : A -> bool) (l : list A) (i : Z) : Z :=
  match l with
  | [] => -1
  | x :: xs => if p x then i else index_of_aux p xs (i + 1)
  end.
Definition index_of {A} (p : A -> bool) (l : list A) : Z := index_of_aux p l 0.

Fixpoint nat_seq_Z (n : nat) (start : Z) : list Z :=
  match n with O => [] | S k => start :: nat_seq_Z k (start + 1) end.
