(* Hash.v — model of every Hash method of pkg/runtime/values, of values.Hash and
   values.MapHash, of Copy / Clone, and of the hash-table de-duplicators
   (ForResult.Push with DISTINCT, CollectIterator.group, UniqueIterator,
   arrays.ToUniqueArray / UNIQUE / UNION_DISTINCT / SORTED_UNIQUE).
   Definitions only; the lemmas are in Proofs/HashProofs.v. *)
From Ferret Require Export Value Compare.

(* ---- hash/fnv New64a: h := offset; for each byte: h ^= b; h *= prime (mod 2^64) *)
Definition fnv_offset : N := 14695981039346656037%N.   (* 0xcbf29ce484222325 *)
Definition fnv_prime : N := 1099511628211%N.            (* 0x100000001b3 *)
Definition two64 : N := 18446744073709551616%N.
Definition mask64 : N := 18446744073709551615%N.         (* 2^64 - 1 *)
(* [N.land _ mask64] is [_ mod 2^64] (HashProofs.fnv_step_mod); the bitwise form
   evaluates much faster inside Coq *)
Definition fnv_step (h b : N) : N := N.land (fnv_prime * N.lxor h b) mask64.
Definition fnv (s : bytes) : N := fold_left fnv_step s fnv_offset.

(* ---- fixed-width integers as bytes *)
Fixpoint le_bytes (k : nat) (n : N) : bytes :=
  match k with
  | O => []
  | S k' => (n mod 256)%N :: le_bytes k' (n / 256)%N
  end.
Definition be_bytes (k : nat) (n : N) : bytes := rev (le_bytes k n).
(* binary.LittleEndian.PutUint64 *)
Definition le64 (n : N) : bytes := le_bytes 8 n.
(* two's complement conversion uint64(int64) etc. *)
Definition uwrap (bits : Z) (z : Z) : N := Z.to_N (z mod 2 ^ bits).

(* ---- time.Time.GobEncode = MarshalBinary (version 1: zone offsets that are a
   whole number of minutes, the only ones VDate can carry): version byte,
   8 bytes big-endian seconds since 1 January of year 1, 4 bytes big-endian
   nanoseconds, 2 bytes big-endian zone offset in minutes (-1 = UTC). *)
Definition unix_to_internal : Z := 62135596800.
Definition gob_time (sec nsec off : Z) : bytes :=
  [1%N] ++ be_bytes 8 (uwrap 64 (sec + unix_to_internal))
        ++ be_bytes 4 (uwrap 32 nsec) ++ be_bytes 2 (uwrap 16 off).

(* ---- the byte string each Hash method feeds to FNV.  [shallow] is a value
   with its children replaced by their 64-bit hashes (object members already
   in sorted key order, as the code sorts the keys before writing). *)
Inductive shallow : Type :=
| ShBool (b : bool)
| ShInt (z : Z)
| ShFloat (bits : N)
| ShStr (s : bytes)
| ShDate (sec nsec off : Z)
| ShArr (hs : list N)
| ShObj (ms : list (bytes * N))
| ShBin (b : bytes).

Definition colon : N := 58%N.
Definition comma : N := 44%N.

Fixpoint join_comma (parts : list bytes) : bytes :=
  match parts with
  | [] => []
  | [p] => p
  | p :: r => p ++ comma :: join_comma r
  end.

(* one member:  <len(key) as 8 little-endian bytes> key ':' <8 bytes child hash>.
   The length in front of the key makes the byte string unambiguous whatever
   bytes the key contains (binary.LittleEndian.PutUint64(keyLen, uint64(len(key)))). *)
Definition key_len (k : bytes) : N := N.of_nat (List.length k).
Definition member_bytes (kh : bytes * N) : bytes :=
  le64 (key_len (fst kh)) ++ fst kh ++ colon :: le64 (snd kh).

Definition sh_name (s : shallow) : bytes :=
  match s with
  | ShBool _ => bs "boolean" | ShInt _ => bs "int" | ShFloat _ => bs "float"
  | ShStr _ => bs "string" | ShDate _ _ _ => bs "date_time" | ShArr _ => bs "array"
  | ShObj _ => bs "object" | ShBin _ => bs "binary"
  end.

Definition sh_content (s : shallow) : bytes :=
  match s with
  | ShBool b => if b then bs "true" else bs "false"
  | ShInt z => le64 (uwrap 64 z)
  | ShFloat f => le64 f
  | ShStr s => s
  | ShDate s n o => gob_time s n o
  | ShArr hs => bs "[" ++ join_comma (map le64 hs) ++ bs "]"
  | ShObj ms => bs "{" ++ join_comma (map member_bytes ms) ++ bs "}"
  | ShBin b => b
  end.

Definition preimage (s : shallow) : bytes := sh_name s ++ colon :: sh_content s.

(* sort.Strings(keys) followed by the lookup of every key = the members sorted
   by key (a Go map has no duplicate keys) *)
Definition hkey_leb (a b : bytes * N) : bool :=
  match lexcmp (fst a) (fst b) with Gt => false | _ => true end.
Definition sort_members (ms : list (bytes * N)) : list (bytes * N) := isort hkey_leb ms.

(* none.Hash() returns 0 without hashing anything *)
Fixpoint hash (v : value) : N :=
  match v with
  | VNone => 0%N
  | VBool b => fnv (preimage (ShBool b))
  | VInt z => fnv (preimage (ShInt z))
  | VFloat f => fnv (preimage (ShFloat f))
  | VStr s => fnv (preimage (ShStr s))
  | VDate s n o => fnv (preimage (ShDate s n o))
  | VArr l => fnv (preimage (ShArr (map hash l)))
  | VObj m => fnv (preimage (ShObj (sort_members (map (fun kv => (fst kv, hash (snd kv))) m))))
  | VBin b => fnv (preimage (ShBin b))
  end.

(* the shallow view of a value (None has no pre-image) *)
Definition shallow_of (v : value) : option shallow :=
  match v with
  | VNone => None
  | VBool b => Some (ShBool b)
  | VInt z => Some (ShInt z)
  | VFloat f => Some (ShFloat f)
  | VStr s => Some (ShStr s)
  | VDate s n o => Some (ShDate s n o)
  | VArr l => Some (ShArr (map hash l))
  | VObj m => Some (ShObj (sort_members (map (fun kv => (fst kv, hash (snd kv))) m)))
  | VBin b => Some (ShBin b)
  end.

(* values.MapHash: the same member encoding (key length included) without a type tag *)
Definition map_hash (m : list (bytes * value)) : N :=
  fnv (bs "{" ++ join_comma (map member_bytes
         (sort_members (map (fun kv => (fst kv, hash (snd kv))) m))) ++ bs "}").

(* the group key of  COLLECT var = expr : MapHash of the one-entry map *)
Definition collect_key (var : bytes) (v : value) : N := map_hash [(var, v)].

(* ---- Copy / Clone.  Both rebuild containers; for objects the Go code ranges
   over the map, whose iteration order is arbitrary: [ord] is that choice. *)
Section CopyClone.
  Variable ord : list (bytes * value) -> list (bytes * value).
  Definition vcopy (v : value) : value :=
    match v with
    | VArr l => VArr l
    | VObj m => VObj (ord m)
    | _ => v
    end.
  Fixpoint vclone (v : value) : value :=
    match v with
    | VArr l => VArr (map vclone l)
    | VObj m => VObj (ord (map (fun kv => (fst kv, vclone (snd kv))) m))
    | _ => v
    end.
End CopyClone.

(* ---- de-duplication through a table of 64-bit keys, as every construct of
   the code does it: an element is kept iff its key was not seen before. *)
Section Dedup.
  Variable key : value -> N.
  Fixpoint dedup_aux (seen : list N) (l : list value) : list value :=
    match l with
    | [] => []
    | x :: r =>
        if existsb (N.eqb (key x)) seen then dedup_aux seen r
        else x :: dedup_aux (key x :: seen) r
    end.
  Definition dedup (l : list value) : list value := dedup_aux [] l.

  (* COLLECT ... WITH COUNT: groups in order of first appearance with sizes *)
  Fixpoint bump (k : N) (g : list (N * value * N)) : option (list (N * value * N)) :=
    match g with
    | [] => None
    | (k', v, c) :: r =>
        if (k =? k')%N then Some ((k', v, c + 1)%N :: r)
        else match bump k r with Some r' => Some ((k', v, c) :: r') | None => None end
    end.
  Fixpoint group_aux (g : list (N * value * N)) (l : list value) : list (N * value * N) :=
    match l with
    | [] => g
    | x :: r =>
        match bump (key x) g with
        | Some g' => group_aux g' r
        | None => group_aux (g ++ [(key x, x, 1%N)]) r
        end
    end.
  Definition group_count (l : list value) : list (value * N) :=
    map (fun t => (snd (fst t), snd t)) (group_aux [] l).
End Dedup.

Definition distinct_model (l : list value) : list value := dedup hash l.          (* RETURN DISTINCT, UniqueIterator *)
Definition unique_model (l : list value) : list value := dedup hash l.            (* UNIQUE *)
Definition union_distinct_model (ls : list (list value)) : list value := dedup hash (concat ls).
Definition sorted_unique_model (l : list value) : list value := dedup hash (sort_values l).
Definition collect_model (var : bytes) (l : list value) : list value :=
  dedup (collect_key var) (sort_values l).

(* ---- the specification: keep exactly the first occurrence of every
   structural-identity class.  [prefix] is everything seen so far. *)
Fixpoint firsts_aux (prefix : list value) (l : list value) : list value :=
  match l with
  | [] => []
  | x :: r =>
      (if existsb (struct_eqb x) prefix then [] else [x]) ++ firsts_aux (x :: prefix) r
  end.
Definition firsts (l : list value) : list value := firsts_aux [] l.
Definition count_struct (x : value) (l : list value) : N :=
  N.of_nat (length (filter (struct_eqb x) l)).

(* ---- a concrete finite universe for the bounded injectivity theorem *)
Definition u_scalars : list value :=
  [VNone; VBool false; VBool true;
   VInt 0; VInt 1; VInt (-1); VInt 2; VInt 7; VInt 100; VInt 5578; VInt (2 ^ 53);
   VInt (2 ^ 63 - 1); VInt (- 2 ^ 63);
   VFloat 0%N; VFloat 9223372036854775808%N (* -0 *); VFloat 4607182418800017408%N (* 1 *);
   VFloat 4611686018427387904%N (* 2 *); VFloat 4602678819172646912%N (* 0.5 *);
   VFloat 1%N (* 5e-324 *); VFloat 9218868437227405311%N (* max *);
   VStr []; VStr (bs "a"); VStr (bs "b"); VStr (bs "ab"); VStr (bs "A"); VStr (bs "a:b");
   VStr (bs ","); VStr (bs "0"); VStr (bs "1"); VStr (bs "true"); VStr [0%N]; VStr [255%N];
   VStr (bs "[]"); VStr (bs "{}");
   VDate 0 0 (-1); VDate 0 0 0; VDate 0 0 60; VDate 0 1 (-1); VDate 1 0 (-1);
   VDate (-1) 999999999 (-1); VDate 1700000000 5 (-120);
   VBin []; VBin [0%N]; VBin [1%N]; VBin [0%N; 0%N]; VBin (bs "a"); VBin (bs "true")].

Definition u_small : list value :=
  [VNone; VBool true; VInt 1; VFloat 4607182418800017408%N; VInt 2; VStr (bs "a");
   VStr (bs "b"); VDate 0 0 (-1); VBin [1%N]; VStr []].

Definition pairs_of {B} (f : value -> value -> B) (xs : list value) : list B :=
  flat_map (fun x => map (f x) xs) xs.

(* width <= 2 over [xs]; both insertion orders of the two-member objects *)
Definition containers2 (xs : list value) : list value :=
  [VArr []; VObj []]
  ++ map (fun x => VArr [x]) xs
  ++ map (fun x => VObj [(bs "a", x)]) xs
  ++ map (fun x => VObj [(bs "b", x)]) xs
  ++ map (fun x => VObj [([], x)]) xs
  ++ pairs_of (fun x y => VArr [x; y]) xs
  ++ pairs_of (fun x y => VObj [(bs "a", x); (bs "b", y)]) xs
  ++ pairs_of (fun x y => VObj [(bs "b", y); (bs "a", x)]) xs.

Definition containers1 (xs : list value) : list value :=
  map (fun x => VArr [x]) xs ++ map (fun x => VObj [(bs "a", x)]) xs
  ++ map (fun x => VObj [(bs "b", x)]) xs.

Fixpoint u_deep (d : nat) : list value :=
  match d with
  | O => containers2 u_small
  | S d' => containers2 u_small ++ containers1 (u_deep d')
  end.

(* universe d: all scalars above, all arrays/objects of width <= 2 over
   u_small, and d further levels of width-1 nesting around those *)
Definition universe (d : nat) : list value := u_scalars ++ u_deep d.

Definition inj_chk (a b : N * value) : bool :=
  if (fst a =? fst b)%N then value_eqb (snd a) (snd b) else true.
Fixpoint inj_tri (H : list (N * value)) : bool :=
  match H with
  | [] => true
  | a :: r => forallb (inj_chk a) r && inj_tri r
  end.
(* every unordered pair of entries with equal hashes has equal normal forms *)
Definition hash_injective_onb (U : list value) : bool :=
  inj_tri (map (fun v => (hash v, norm v)) U).

(* ---- the former delimiter collision: while the key was written without its
   length, for any v, w the objects
     {a: v, b: w}   and   { "a:" ++ le64(hash v) ++ ",b" : w }
   had the same pre-image.  With the length prefix they no longer do
   (HashProofs.collide_preimage_differs). *)
Definition collide_left (v w : value) : value := VObj [(bs "a", v); (bs "b", w)].
Definition collide_key (hv : N) : bytes := bs "a" ++ colon :: le64 hv ++ comma :: bs "b".
Definition collide_right (v w : value) : value := VObj [(collide_key (hash v), w)].
