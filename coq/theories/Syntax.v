(* Syntax.v — abstract syntax of the FQL core language (what the visitor of
   pkg/compiler builds from the parse tree).  Definitions only. *)
From Ferret Require Export Base Value.

Inductive unop := UNot | UNeg | UPos.
Inductive logop := LAnd | LOr.
Inductive cmpop := CEq | CNe | CLt | CLe | CGt | CGe.
Inductive mathop := MAdd | MSub | MMul | MDiv | MMod.
Inductive quant := QAll | QAny | QNone.
Inductive qcmp := QCmp (o : cmpop) | QIn (neg : bool).

(* names are byte strings exactly as spelled in the query; "_" is the ignore
   variable *)
Definition name := bytes.

Inductive expr : Type :=
| ENone
| EBool (b : bool)
| EInt (z : Z)
| EFloat (bits : N)
| EStr (s : bytes)
| EArr (es : list expr)
| EObj (ps : list prop)
| EVar (x : name)
| EParam (x : name)
| EUn (o : unop) (e : expr)
| ELog (o : logop) (a b : expr)
| ECond (c : expr) (t : option expr) (f : expr)       (* c ? t : f   and   c ?: f *)
| ECmp (o : cmpop) (a b : expr)
| EIn (neg : bool) (a b : expr)
| EQuant (q : quant) (c : qcmp) (a b : expr)          (* a ALL == b, a ANY IN b, ... *)
| ELike (neg : bool) (a b : expr)
| ERegex (neg : bool) (a b : expr)
| EMath (o : mathop) (a b : expr)
| ERange (a b : expr)
| EMember (src : expr) (path : list seg)
| ECall (f : name) (args : list expr)
| ESuppress (e : expr)                                (* F()?  and  (e)? *)
| ESub (q : forq)                                     (* ( FOR ... ) *)
with prop : Type :=
| PNamed (k : bytes) (e : expr)                       (* k: e   "k": e *)
| PComputed (k : expr) (e : expr)                     (* [k]: e   and   @p: e *)
| PShort (x : name)                                   (* { x } *)
with seg : Type :=
| Seg (optional : bool) (e : expr)                    (* .name is Seg _ (EStr name) *)
with forq : Type :=
| ForIn (vv : name) (kv : option name) (src : expr) (body : list fclause) (ret : fret)
| ForWhile (vv : name) (do_first : bool) (cond : expr) (body : list fclause) (ret : fret)
with fclause : Type :=
| CLet (x : name) (e : expr)
| CCall (e : expr)
| CFilter (e : expr)
| CSort (keys : list (expr * bool))                   (* true = DESC *)
| CLimit (offset : option expr) (count : expr)
| CCollect (groups : list (name * expr)) (tail : ctail)
with ctail : Type :=
| CTNone
| CTInto (x : name) (proj : option expr)              (* INTO x   /  INTO x = e *)
| CTCount (x : name)                                  (* WITH COUNT INTO x *)
| CTAggr (sels : list (name * name * list expr))      (* AGGREGATE x = F(args), ... *)
with fret : Type :=
| RReturn (distinct : bool) (e : expr)
| RFor (q : forq).

Inductive stmt :=
| SLet (x : name) (e : expr)
| SCall (e : expr).

Inductive bodyret :=
| BReturn (e : expr)
| BFor (q : forq).

Record program := { p_stmts : list stmt; p_ret : bodyret }.
