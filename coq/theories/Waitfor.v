(* Waitfor.v — WAITFOR EVENT (expressions/waitfor_event.go) over a timed script
   of messages from the observable: value, error, or closed stream.  The
   deadline is min(TIMEOUT, cancellation time); ties between a message and the
   deadline are excluded by the statement (the Go select is nondeterministic
   there).  Definitions only. *)
From Ferret Require Export Base.

Inductive wmsg := WVal (v : Z) | WErr | WClose.
Definition script := list (Z * wmsg).            (* arrival time (ms), message; ascending *)

Inductive wres := WROk (v : Z) | WRError | WRTimeout.

(* the subscription as a resource: number of Subscribe and Close calls *)
Record wout := { w_res : wres; w_subs : nat; w_closes : nat }.

Fixpoint consume (s : script) (filter : Z -> bool) (deadline : Z) : wres :=
  match s with
  | [] => WRTimeout
  | (t, m) :: r =>
      if deadline <=? t then WRTimeout
      else match m with
           | WVal v => if filter v then WROk v else consume r filter deadline
           | WErr => WRError
           | WClose => WRError
           end
  end.

(* Subscribe may fail; otherwise the stream is closed exactly once on every
   exit path (defer stream.Close) *)
Definition waitfor (sub_fails : bool) (s : script) (filter : Z -> bool) (deadline : Z) : wout :=
  if sub_fails then {| w_res := WRError; w_subs := 1; w_closes := 0 |}
  else {| w_res := consume s filter deadline; w_subs := 1; w_closes := 1 |}.
