(* Parser.v — reference parser of the FQL core language: token list ->
   Syntax.program, as pkg/parser/antlr/FqlParser.g4 is read by ANTLR 4 and as
   pkg/compiler/visitor.go turns the parse tree into expressions.

   * One precedence scale over the three left-recursive rules of the grammar
     (higher binds tighter; every binary alternative is left-associative, the
     ternary included; the right operand of level l is parsed at level l+1):
        1 ternary   2 OR   3 AND   4 prefix NOT ! - +  (operand: level 4)
        5 LIKE   6 IN   7 ALL/ANY/NONE op   8 == != < <= > >=
        9 =~ !~   10 + -   11 * / %   12 primaries.
     So -2 + 3 is -(2+3), 1 IN [1] == true is 1 IN ([1] == true), 2 - -3 is
     a syntax error.
   * [parse_program] succeeds only when the token list is exhausted.
   * Names: variables, parameters, property names keep the token text;
     function names are upper-cased (core.Functions.Get); `.name` and
     `"name":` keys are the raw text (string keys are NOT un-escaped,
     visitPropertyName); string literals are un-escaped by [str_value]
     (\n, \t only; \X stays two characters — visitStringLiteral; a trailing
     backslash stays a backslash: the specified behaviour, see
     proposed_fixes/C06-string-trailing-backslash).
   * Integer literals above 2^63-1 and float literals that overflow are
     rejected (strconv errors are compile errors).
   * Resolution of the places where the grammar is ambiguous or needs
     unbounded look-ahead, fixed here as follows and exercised by the
     correspondence checks:
       - word '(' in operand position is a function call for every word
         (identifier or reserved word); in statement position the clause
         keywords LET FOR RETURN FILTER SORT LIMIT COLLECT keep their clause
         meaning (the implementation reads FILTER (x) as a call of a function
         named FILTER: recorded finding);
       - '?' directly after a call or a parenthesised expression is either
         the error operator or the '?' of a ternary.  Where the next tokens
         settle it ([q_decide]: a token that can never follow an operand
         forces the ternary, a token that cannot start an expression forces
         the error operator, "?:" outside a then-branch is the shorthand
         ternary) the parser just takes that reading; otherwise it asks the
         oracle [choice], indexed by the number of tokens after the '?'.
         [parse_program] / [parse_expr] try the oracles in the order of the
         generated parser's preference — error operator first, leftmost
         decision most significant — and take the first reading under which
         the WHOLE token list parses: a text is well-formed iff some reading
         parses it, and an ambiguous text gets the reading ALL( * ) takes;
       - RETURN DISTINCT: DISTINCT is the keyword when an expression can start
         after it.
   * Not supported (parse fails, [uses_unsupported] says why): USE heads and
     WAITFOR EVENT.
   Definitions only; lemmas in Proofs/ParserProofs.v. *)
From Ferret Require Export Syntax Lexer.
Local Open Scope N_scope.

Definition toks := list token.

(* result of a parsing function: the value and the remaining tokens, a
   definite failure (syntax error), or "out of fuel" (never the case with the
   fuel [fuel_for] gives; every theorem excludes it) *)
Inductive pres (A : Type) : Type :=
| POk (a : A) (r : toks)
| PFail
| PFuel.
Arguments POk {A} a r.
Arguments PFail {A}.
Arguments PFuel {A}.

Definition bindr {A B} (r : pres A) (k : A -> toks -> pres B) : pres B :=
  match r with POk a ts => k a ts | PFail => PFail | PFuel => PFuel end.
Definition mapr {A B} (f : A -> B) (r : pres A) : pres B :=
  match r with POk a ts => POk (f a) ts | PFail => PFail | PFuel => PFuel end.
(* [r] must succeed and be followed by a token of class [is]; continue after it *)
Definition bind_tok {A B} (r : pres A) (is : kind -> bool) (k : A -> toks -> pres B) : pres B :=
  match r with
  | POk a ((kk, _) :: r') => if is kk then k a r' else PFail
  | POk _ [] => PFail
  | PFail => PFail
  | PFuel => PFuel
  end.
Definition of_opt {A} (o : option (A * toks)) : pres A :=
  match o with Some (a, r) => POk a r | None => PFail end.

(* ------------------------------------------------------ word classes *)
Definition is_safe_rw (k : kind) : bool :=
  match k with
  | KAnd | KOr | KDistinct | KFilter | KSort | KLimit | KCollect | KSortDir | KInto | KKeep
  | KWith | KCount | KAll | KAny | KAggregate | KEvent | KTimeout | KOptions | KCurrent => true
  | _ => false
  end.
Definition is_unsafe_rw (k : kind) : bool :=
  match k with
  | KReturn | KNone | KNull | KLet | KUse | KWaitfor | KWhile | KDo | KIn | KLike | KNot
  | KFor | KBool => true
  | _ => false
  end.
Definition is_ident (k : kind) : bool := match k with KIdent => true | _ => false end.
(* grammar rule `variable`; also what may follow '@' and LET *)
Definition is_varname (k : kind) : bool := is_ident k || is_safe_rw k.
(* functionName / propertyName *)
Definition is_word (k : kind) : bool := is_ident k || is_safe_rw k || is_unsafe_rw k.
Definition is_loopvar (k : kind) : bool := match k with KIdent | KIgnore => true | _ => false end.

(* ---------------------------------------------------------- literals *)
Definition upper_name (t : bytes) : bytes := bytes_of (map up (runes_of t)).

Fixpoint digits_val (s : bytes) (acc : Z) : Z :=
  match s with
  | [] => acc
  | c :: r => digits_val r (acc * 10 + (Z.of_N c - 48))%Z
  end.
(* strconv.Atoi *)
Definition int_value (t : bytes) : option Z :=
  let v := digits_val t 0%Z in if (v <? 2 ^ 63)%Z then Some v else None.

(* decimal m * 10^e10 -> IEEE-754 binary64 bits, round to nearest even;
   None when the result overflows (strconv.ParseFloat: ErrRange) *)
Definition dec_to_bits (m : N) (e10 : Z) : option N :=
  (if (m =? 0)%N then Some 0%N
   else
     let dm := (Z.log2 (Z.of_N m) + 1) / 3 + 1 in
     if 400 <? e10 then None
     else if e10 <? - 340 - dm then Some 0%N
     else
       let num := if 0 <=? e10 then Z.of_N m * 10 ^ e10 else Z.of_N m in
       let den := if 0 <=? e10 then 1 else 10 ^ (- e10) in
       let e0 := Z.log2 num - Z.log2 den in
       let ge := if 0 <=? e0 then den * 2 ^ e0 <=? num else den <=? num * 2 ^ (- e0) in
       let e := if ge then e0 else e0 - 1 in
       let sh := Z.max (e - 52) (- 1074) in
       let n' := if 0 <=? sh then num else num * 2 ^ (- sh) in
       let d' := if 0 <=? sh then den * 2 ^ sh else den in
       let q := n' / d' in
       let r := n' mod d' in
       let q' := if 2 * r <? d' then q
                 else if d' <? 2 * r then q + 1
                 else if Z.even q then q else q + 1 in
       let bits := (sh + 1074) * 2 ^ 52 + q' in
       if 2047 * 2 ^ 52 <=? bits then None else Some (Z.to_N bits))%Z.

(* digits of [s] appended to the mantissa: (mantissa, digits read, rest) *)
Fixpoint take_digits (s : bytes) (acc : N) (cnt : Z) : N * Z * bytes :=
  match s with
  | c :: r => if is_digit c then take_digits r (acc * 10 + (c - 48)) (cnt + 1)%Z else (acc, cnt, s)
  | [] => (acc, cnt, [])
  end.
Definition float_value (t : bytes) : option N :=
  let '(m1, _, r1) := take_digits t 0 0%Z in
  let '(m2, nf, r2) := match r1 with
                       | 46 :: r => take_digits r m1 0%Z
                       | _ => (m1, 0%Z, r1)
                       end in
  let ex := match r2 with
            | _ :: 45 :: r => (- digits_val r 0)%Z
            | _ :: 43 :: r => digits_val r 0%Z
            | _ :: r => digits_val r 0%Z
            | [] => 0%Z
            end in
  dec_to_bits m2 (ex - nf)%Z.

(* string literal tokens: the quote is one byte, two for U+00B4 (C2 B4) *)
Definition quote_width (t : bytes) : nat := match t with 194 :: _ => 2%nat | _ => 1%nat end.
Definition str_inner (t : bytes) : bytes :=
  let w := quote_width t in firstn (List.length t - 2 * w) (skipn w t).
(* visitStringLiteral: \n and \t are rewritten, every other \X stays as the
   two characters; a backslash that is the last character of the literal
   (possible in the back-tick styles) stays a backslash *)
Fixpoint unesc (s : bytes) : bytes :=
  match s with
  | [] => []
  | c :: r =>
      if c =? 92 then
        match r with
        | d :: r' =>
            if d =? 110 then 10 :: unesc r'
            else if d =? 116 then 9 :: unesc r'
            else 92 :: d :: unesc r'
        | [] => [92]
        end
      else c :: unesc r
  end.
Definition str_value (t : bytes) : bytes := unesc (str_inner t).

Definition bool_value (t : bytes) : bool := bytes_eqb (upper_name t) (bs "TRUE").

(* ----------------------------------------------------- binary operators *)
Definition eqop (k : kind) : option cmpop :=
  match k with
  | KEq => Some CEq | KNeq => Some CNe | KLt => Some CLt | KLte => Some CLe
  | KGt => Some CGt | KGte => Some CGe | _ => None
  end.
Definition quant_of (k : kind) : option quant :=
  match k with KAll => Some QAll | KAny => Some QAny | KNone => Some QNone | _ => None end.

(* the operator of precedence level [lv] at the head of [ts], if any *)
Definition binop (lv : nat) (ts : toks) : option ((expr -> expr -> expr) * toks) :=
  match lv with
  | 2%nat => match ts with (KOr, _) :: r => Some (ELog LOr, r) | _ => None end
  | 3%nat => match ts with (KAnd, _) :: r => Some (ELog LAnd, r) | _ => None end
  | 5%nat => match ts with
             | (KLike, _) :: r => Some (ELike false, r)
             | (KNot, _) :: (KLike, _) :: r => Some (ELike true, r)
             | _ => None
             end
  | 6%nat => match ts with
             | (KIn, _) :: r => Some (EIn false, r)
             | (KNot, _) :: (KIn, _) :: r => Some (EIn true, r)
             | _ => None
             end
  | 7%nat => match ts with
             | (q, _) :: r =>
                 match quant_of q with
                 | Some qq =>
                     match r with
                     | (KIn, _) :: r' => Some (EQuant qq (QIn false), r')
                     | (KNot, _) :: (KIn, _) :: r' => Some (EQuant qq (QIn true), r')
                     | (k, _) :: r' =>
                         match eqop k with
                         | Some o => Some (EQuant qq (QCmp o), r')
                         | None => None
                         end
                     | [] => None
                     end
                 | None => None
                 end
             | [] => None
             end
  | 8%nat => match ts with
             | (k, _) :: r => match eqop k with Some o => Some (ECmp o, r) | None => None end
             | [] => None
             end
  | 9%nat => match ts with
             | (KRegexMatch, _) :: r => Some (ERegex false, r)
             | (KRegexNotMatch, _) :: r => Some (ERegex true, r)
             | _ => None
             end
  | 10%nat => match ts with
              | (KPlus, _) :: r => Some (EMath MAdd, r)
              | (KMinus, _) :: r => Some (EMath MSub, r)
              | _ => None
              end
  | 11%nat => match ts with
              | (KMulti, _) :: r => Some (EMath MMul, r)
              | (KDiv, _) :: r => Some (EMath MDiv, r)
              | (KMod, _) :: r => Some (EMath MMod, r)
              | _ => None
              end
  | _ => None
  end.

Definition unop_of (k : kind) : option unop :=
  match k with KNot => Some UNot | KMinus => Some UNeg | KPlus => Some UPos | _ => None end.

(* NamespaceSegment* functionName '(' : the concatenated name and the tokens
   after the parenthesis *)
Fixpoint call_name (ts : toks) (acc : bytes) : option (bytes * toks) :=
  match ts with
  | (KNsSeg, t) :: r => call_name r (acc ++ t)
  | (k, t) :: (KLParen, _) :: r => if is_word k then Some (acc ++ t, r) else None
  | _ => None
  end.
Definition is_call_start (ts : toks) : bool :=
  match ts with
  | (KNsSeg, _) :: _ => true
  | (k, _) :: (KLParen, _) :: _ => is_word k
  | _ => false
  end.

(* can an expression start with this token (followed by [k2])? *)
Definition starts_expr (k : kind) (k2 : option kind) : bool :=
  match k with
  | KLParen | KLBrack | KLBrace | KParam | KNsSeg | KString | KInt | KFloat | KBool | KNone
  | KNull | KNot | KPlus | KMinus => true
  | _ => is_varname k
         || (is_word k && match k2 with Some KLParen => true | _ => false end)
  end.

(* the decision at a '?' that directly follows a call or ')' : [r] = the
   tokens after the '?' *)
Inductive qdec := QErr | QTern | QAsk.

(* a token of this kind never follows a complete operand *)
Definition never_after_operand (k : kind) : bool :=
  match k with
  | KLParen | KLBrack | KLBrace | KParam | KString | KInt | KFloat | KBool | KNull => true
  | _ => false
  end.

Definition q_decide (tb : bool) (r : toks) : qdec :=
  match r with
  | [] => QErr
  | (k, _) :: r2 =>
      match k with
      | KColon => if tb then QAsk else QTern
      | KIdent => match r2 with (KLParen, _) :: _ => QAsk | _ => QTern end
      | _ =>
          if never_after_operand k then QTern
          else if starts_expr k (match r2 with (k2, _) :: _ => Some k2 | [] => None end) then QAsk
          else QErr
      end
  end.

(* =====================================================================
   Everything below the expression levels is parameterised by the oracle
   [choice] and by the expression parser [pe tb lv ts], so that the only
   recursive function over expressions is [parse_at]. *)
Section WithExpr.
  (* [choice n] = true: the undecided '?' with [n] tokens after it is the
     error operator *)
  Variable choice : nat -> bool.
  (* [pe tb lv ts]: parse an expression of level [lv]; [tb] = we are inside the
     then-branch of a ternary (at the same bracket depth), where a ':' is
     still expected *)
  Variable pe : bool -> nat -> toks -> pres expr.

  Definition is_colon (k : kind) : bool := match k with KColon => true | _ => false end.
  Definition is_rparen (k : kind) : bool := match k with KRParen => true | _ => false end.
  Definition is_rbrack (k : kind) : bool := match k with KRBrack => true | _ => false end.

  (* error operator after a call / a parenthesised expression *)
  Definition postfix_q (tb : bool) (e : expr) (ts : toks) : pres expr :=
    match ts with
    | (KQuestion, _) :: r =>
        match q_decide tb r with
        | QTern => POk e ts
        | QErr => POk (ESuppress e) r
        | QAsk => if choice (List.length r) then POk (ESuppress e) r else POk e ts
        end
    | _ => POk e ts
    end.

  (* expression (',' expression)* ','? close  — the opening token is consumed *)
  Fixpoint parse_seq (fuel : nat) (is_close : kind -> bool) (ts : toks) : pres (list expr) :=
    match fuel with
    | O => PFuel
    | S f =>
        match ts with
        | [] => PFail
        | (k, _) :: r =>
            if is_close k then POk [] r
            else
              match pe false 1%nat ts with
              | POk e ((k', _) :: r') =>
                  if is_close k' then POk [e] r'
                  else match k' with
                       | KComma => mapr (cons e) (parse_seq f is_close r')
                       | _ => PFail
                       end
              | POk _ [] => PFail
              | PFail => PFail
              | PFuel => PFuel
              end
        end
    end.

  Definition parse_call (fuel : nat) (ts : toks) : pres expr :=
    match call_name ts [] with
    | Some (f, r) => mapr (ECall (upper_name f)) (parse_seq fuel is_rparen r)
    | None => PFail
    end.

  (* propertyName after '.' *)
  Definition prop_name (ts : toks) : pres expr :=
    match ts with
    | (KString, t) :: r => POk (EStr (str_inner t)) r
    | (KParam, _) :: (k, t) :: r => if is_varname k then POk (EParam t) r else PFail
    | (k, t) :: r => if is_word k then POk (EStr t) r else PFail
    | [] => PFail
    end.

  (* memberExpressionPath* *)
  Fixpoint parse_path (fuel : nat) (ts : toks) : pres (list seg) :=
    match fuel with
    | O => PFuel
    | S f =>
        match ts with
        | (KDot, _) :: r =>
            bindr (prop_name r) (fun e r' => mapr (cons (Seg false e)) (parse_path f r'))
        | (KQuestion, _) :: (KDot, _) :: (KLBrack, _) :: r =>
            bind_tok (pe false 1%nat r) is_rbrack (fun e r' => mapr (cons (Seg true e)) (parse_path f r'))
        | (KQuestion, _) :: (KDot, _) :: r =>
            bindr (prop_name r) (fun e r' => mapr (cons (Seg true e)) (parse_path f r'))
        | (KLBrack, _) :: r =>
            bind_tok (pe false 1%nat r) is_rbrack (fun e r' => mapr (cons (Seg false e)) (parse_path f r'))
        | _ => POk [] ts
        end
    end.

  Definition with_path (fuel : nat) (src : expr) (ts : toks) : pres expr :=
    match parse_path fuel ts with
    | POk [] r => POk src r
    | POk p r => POk (EMember src p) r
    | PFail => PFail
    | PFuel => PFuel
    end.

  Definition starts_path (ts : toks) : bool :=
    match ts with
    | (KDot, _) :: _ => true
    | (KLBrack, _) :: _ => true
    | (KQuestion, _) :: (KDot, _) :: _ => true
    | _ => false
    end.

  (* rangeOperand after '..' *)
  Definition range_rhs (a : expr) (ts : toks) : pres expr :=
    match ts with
    | (KInt, t) :: r => match int_value t with Some z => POk (ERange a (EInt z)) r | None => PFail end
    | (KParam, _) :: (k, t) :: r => if is_varname k then POk (ERange a (EParam t)) r else PFail
    | (k, t) :: r => if is_varname k then POk (ERange a (EVar t)) r else PFail
    | [] => PFail
    end.

  (* a variable / parameter operand: range, member path, or itself *)
  Definition after_name (fuel : nat) (a : expr) (ts : toks) : pres expr :=
    match ts with
    | (KRange, _) :: r => range_rhs a r
    | _ => with_path fuel a ts
    end.

  (* after functionCall: member path, error operator, or nothing *)
  Definition after_call (tb : bool) (fuel : nat) (c : expr) (ts : toks) : pres expr :=
    if starts_path ts then with_path fuel c ts else postfix_q tb c ts.

  (* objectLiteral after '{' *)
  Fixpoint parse_props (fuel : nat) (ts : toks) : pres (list prop) :=
    match fuel with
    | O => PFuel
    | S f =>
        let continue (p : prop) (r : toks) : pres (list prop) :=
          match r with
          | (KComma, _) :: r' => mapr (cons p) (parse_props f r')
          | (KRBrace, _) :: r' => POk [p] r'
          | _ => PFail
          end in
        match ts with
        | (KRBrace, _) :: r => POk [] r
        | (KLBrack, _) :: r =>
            bind_tok (pe false 1%nat r) is_rbrack (fun k r1 =>
              match r1 with
              | (KColon, _) :: r' => bindr (pe false 1%nat r') (fun v r'' => continue (PComputed k v) r'')
              | _ => PFail
              end)
        | (KParam, _) :: (k, t) :: (KColon, _) :: r =>
            if is_varname k then bindr (pe false 1%nat r) (fun v r' => continue (PComputed (EParam t) v) r')
            else PFail
        | (KString, t) :: (KColon, _) :: r =>
            bindr (pe false 1%nat r) (fun v r' => continue (PNamed (str_inner t) v) r')
        | (k, t) :: (KColon, _) :: r =>
            if is_word k then bindr (pe false 1%nat r) (fun v r' => continue (PNamed t v) r') else PFail
        | (k, t) :: r => if is_varname k then continue (PShort t) r else PFail
        | [] => PFail
        end
    end.

  (* functionCallExpression in statement position: '?' is the error operator *)
  Definition call_stmt (fuel : nat) (ts : toks) : pres expr :=
    match parse_call fuel ts with
    | POk c ((KQuestion, _) :: r) => POk (ESuppress c) r
    | x => x
    end.

  (* forExpressionSource / limitClauseValue: call, array, object, variable,
     member expression, range, parameter (no parentheses, no other literal) *)
  Definition parse_operand (fuel : nat) (allow_int : bool) (ts : toks) : pres expr :=
    if is_call_start ts then
      bindr (parse_call fuel ts) (fun c r =>
        if starts_path r then with_path fuel c r
        else match r with
             | (KQuestion, _) :: r' => POk (ESuppress c) r'
             | _ => POk c r
             end)
    else
      match ts with
      | (KInt, t) :: (KRange, _) :: r =>
          match int_value t with Some z => range_rhs (EInt z) r | None => PFail end
      | (KInt, t) :: r =>
          if allow_int then match int_value t with Some z => POk (EInt z) r | None => PFail end
          else PFail
      | (KParam, _) :: (k, t) :: r => if is_varname k then after_name fuel (EParam t) r else PFail
      | (KLBrack, _) :: r => bindr (parse_seq fuel is_rbrack r) (fun es r' => with_path fuel (EArr es) r')
      | (KLBrace, _) :: r => bindr (parse_props fuel r) (fun ps r' => with_path fuel (EObj ps) r')
      | (k, t) :: r => if is_varname k then after_name fuel (EVar t) r else PFail
      | [] => PFail
      end.

  (* RETURN [DISTINCT] expression, the RETURN token consumed *)
  Definition parse_return (ts : toks) : pres (bool * expr) :=
    match ts with
    | (KDistinct, _) :: (k, t) :: r =>
        let k2 := match r with (k2, _) :: _ => Some k2 | [] => None end in
        if starts_expr k k2 then mapr (fun e => (true, e)) (pe false 1%nat ((k, t) :: r))
        else mapr (fun e => (false, e)) (pe false 1%nat ts)
    | _ => mapr (fun e => (false, e)) (pe false 1%nat ts)
    end.

  (* LET name = expression, the LET token consumed *)
  Definition parse_let (ts : toks) : pres (name * expr) :=
    match ts with
    | (k, t) :: (KAssign, _) :: r =>
        if is_varname k || is_loopvar k then mapr (fun e => (t, e)) (pe false 1%nat r) else PFail
    | _ => PFail
    end.

  (* sortClauseExpression (',' sortClauseExpression)* *)
  Fixpoint parse_sort (fuel : nat) (ts : toks) : pres (list (expr * bool)) :=
    match fuel with
    | O => PFuel
    | S f =>
        bindr (pe false 1%nat ts) (fun e r =>
          let '(d, r1) := match r with
                          | (KSortDir, t) :: r' => (bytes_eqb (upper_name t) (bs "DESC"), r')
                          | _ => (false, r)
                          end in
          match r1 with
          | (KComma, _) :: r2 => mapr (cons (e, d)) (parse_sort f r2)
          | _ => POk [(e, d)] r1
          end)
    end.

  (* collectSelector (',' collectSelector)* : Identifier '=' expression *)
  Fixpoint parse_groups (fuel : nat) (ts : toks) : pres (list (name * expr)) :=
    match fuel with
    | O => PFuel
    | S f =>
        match ts with
        | (KIdent, x) :: (KAssign, _) :: r =>
            bindr (pe false 1%nat r) (fun e r' =>
              match r' with
              | (KComma, _) :: r'' => mapr (cons (x, e)) (parse_groups f r'')
              | _ => POk [(x, e)] r'
              end)
        | _ => PFail
        end
    end.

  (* collectAggregateSelector list: Identifier '=' functionCall *)
  Fixpoint parse_aggrs (fuel : nat) (ts : toks) : pres (list (name * name * list expr)) :=
    match fuel with
    | O => PFuel
    | S f =>
        match ts with
        | (KIdent, x) :: (KAssign, _) :: r =>
            bindr (parse_call fuel r) (fun c r' =>
              match c with
              | ECall fn args =>
                  match r' with
                  | (KComma, _) :: r'' => mapr (cons (x, fn, args)) (parse_aggrs f r'')
                  | _ => POk [(x, fn, args)] r'
                  end
              | _ => PFail
              end)
        | _ => PFail
        end
    end.

  (* what may follow the grouping of COLLECT *)
  Definition parse_ctail (fuel : nat) (ts : toks) : pres ctail :=
    match ts with
    | (KWith, _) :: (KCount, _) :: (KInto, _) :: (KIdent, x) :: r => POk (CTCount x) r
    | (KAggregate, _) :: r => mapr CTAggr (parse_aggrs fuel r)
    | (KInto, _) :: (KIdent, x) :: (KAssign, _) :: r => mapr (fun e => CTInto x (Some e)) (pe false 1%nat r)
    | (KInto, _) :: (KIdent, x) :: (KKeep, _) :: (KIdent, _) :: r => POk (CTInto x None) r
    | (KInto, _) :: (KIdent, x) :: r => POk (CTInto x None) r
    | _ => POk CTNone ts
    end.

  Definition parse_collect (fuel : nat) (ts : toks) : pres fclause :=
    match ts with
    | (KIdent, _) :: _ =>
        bindr (parse_groups fuel ts) (fun gs r => mapr (CCollect gs) (parse_ctail fuel r))
    | (KWith, _) :: _ | (KAggregate, _) :: _ =>
        match parse_ctail fuel ts with
        | POk CTNone _ => PFail
        | POk (CTInto _ _) _ => PFail
        | x => mapr (CCollect []) x
        end
    | _ => PFail
    end.

  (* limitClauseValue: integer, parameter, variable, call, member expression *)
  Definition limit_value (fuel : nat) (ts : toks) : pres expr :=
    match parse_operand fuel true ts with
    | POk (EArr _) _ | POk (EObj _) _ | POk (ERange _ _) _ => PFail
    | x => x
    end.
  Definition parse_limit (fuel : nat) (ts : toks) : pres fclause :=
    bindr (limit_value fuel ts) (fun a r =>
      match r with
      | (KComma, _) :: r' => mapr (fun b => CLimit (Some a) b) (limit_value fuel r')
      | _ => POk (CLimit None a) r
      end).

  (* forExpression after the FOR token, and forExpressionBody* forExpressionReturn *)
  Fixpoint parse_for (fuel : nat) (ts : toks) : pres forq :=
    match fuel with
    | O => PFuel
    | S f =>
        match ts with
        | (kv, v) :: (KComma, _) :: (KIdent, k) :: (KIn, _) :: r =>
            if is_loopvar kv then
              bindr (parse_operand fuel false r) (fun src r' =>
                mapr (fun br => ForIn v (Some k) src (fst br) (snd br)) (parse_clauses f r'))
            else PFail
        | (kv, v) :: (KIn, _) :: r =>
            if is_loopvar kv then
              bindr (parse_operand fuel false r) (fun src r' =>
                mapr (fun br => ForIn v None src (fst br) (snd br)) (parse_clauses f r'))
            else PFail
        | (kv, v) :: (KDo, _) :: (KWhile, _) :: r =>
            if is_loopvar kv then
              bindr (pe false 1%nat r) (fun c r' =>
                mapr (fun br => ForWhile v true c (fst br) (snd br)) (parse_clauses f r'))
            else PFail
        | (kv, v) :: (KWhile, _) :: r =>
            if is_loopvar kv then
              bindr (pe false 1%nat r) (fun c r' =>
                mapr (fun br => ForWhile v false c (fst br) (snd br)) (parse_clauses f r'))
            else PFail
        | _ => PFail
        end
    end
  with parse_clauses (fuel : nat) (ts : toks) : pres (list fclause * fret) :=
    match fuel with
    | O => PFuel
    | S f =>
        let more (c : fclause) (r : toks) : pres (list fclause * fret) :=
          mapr (fun br => (c :: fst br, snd br)) (parse_clauses f r) in
        match ts with
        | (KReturn, _) :: r => mapr (fun de => ([], RReturn (fst de) (snd de))) (parse_return r)
        | (KFor, _) :: r => mapr (fun q => ([], RFor q)) (parse_for f r)
        | (KLet, _) :: r => bindr (parse_let r) (fun xe r' => more (CLet (fst xe) (snd xe)) r')
        | (KFilter, _) :: r => bindr (pe false 1%nat r) (fun e r' => more (CFilter e) r')
        | (KSort, _) :: r => bindr (parse_sort fuel r) (fun ks r' => more (CSort ks) r')
        | (KLimit, _) :: r => bindr (parse_limit fuel r) more
        | (KCollect, _) :: r => bindr (parse_collect fuel r) more
        | _ => if is_call_start ts then bindr (call_stmt fuel ts) (fun c r' => more (CCall c) r')
               else PFail
        end
    end.

  (* expressionAtom without its left-recursive alternatives *)
  Definition primary (tb : bool) (fuel : nat) (ts : toks) : pres expr :=
    if is_call_start ts then bindr (parse_call fuel ts) (after_call tb fuel)
    else
      match ts with
      | (KInt, t) :: r =>
          match int_value t with
          | Some z => match r with
                      | (KRange, _) :: r' => range_rhs (EInt z) r'
                      | _ => POk (EInt z) r
                      end
          | None => PFail
          end
      | (KFloat, t) :: r => match float_value t with Some b => POk (EFloat b) r | None => PFail end
      | (KString, t) :: r => POk (EStr (str_value t)) r
      | (KBool, t) :: r => POk (EBool (bool_value t)) r
      | (KNone, _) :: r => POk ENone r
      | (KNull, _) :: r => POk ENone r
      | (KParam, _) :: (k, t) :: r => if is_varname k then after_name fuel (EParam t) r else PFail
      | (KLBrack, _) :: r => bindr (parse_seq fuel is_rbrack r) (fun es r' => with_path fuel (EArr es) r')
      | (KLBrace, _) :: r => bindr (parse_props fuel r) (fun ps r' => with_path fuel (EObj ps) r')
      | (KLParen, _) :: (KFor, _) :: r =>
          bind_tok (parse_for fuel r) is_rparen (fun q r' => postfix_q tb (ESub q) r')
      | (KLParen, _) :: r =>
          bind_tok (pe false 1%nat r) is_rparen (fun e r' => postfix_q tb e r')
      | (k, t) :: r => if is_varname k then after_name fuel (EVar t) r else PFail
      | [] => PFail
      end.

  (* left-associative operator loops *)
  Fixpoint bin_loop (tb : bool) (fuel : nat) (lv : nat) (a : expr) (ts : toks) : pres expr :=
    match fuel with
    | O => PFuel
    | S f =>
        match binop lv ts with
        | Some (mk, r) => bindr (pe tb (S lv) r) (fun b r' => bin_loop tb f lv (mk a b) r')
        | None => POk a ts
        end
    end.

  Fixpoint tern_loop (tb : bool) (fuel : nat) (c : expr) (ts : toks) : pres expr :=
    match fuel with
    | O => PFuel
    | S f =>
        match ts with
        | (KQuestion, _) :: (KColon, _) :: r =>
            bindr (pe tb 2%nat r) (fun e r' => tern_loop tb f (ECond c None e) r')
        | (KQuestion, _) :: r =>
            bind_tok (pe true 1%nat r) is_colon (fun t r' =>
              bindr (pe tb 2%nat r') (fun e r'' => tern_loop tb f (ECond c (Some t) e) r''))
        | _ => POk c ts
        end
    end.

  (* body: bodyStatement* bodyExpression — the program read from the front of
     the token list, and the tokens that follow it *)
  Fixpoint parse_body (fuel : nat) (ts : toks) : pres program :=
    match fuel with
    | O => PFuel
    | S f =>
        let more (s : stmt) (r : toks) : pres program :=
          mapr (fun p => {| p_stmts := s :: p_stmts p; p_ret := p_ret p |}) (parse_body f r) in
        match ts with
        | (KReturn, _) :: r =>
            mapr (fun de => {| p_stmts := []; p_ret := BReturn (snd de) |}) (parse_return r)
        | (KFor, _) :: r =>
            mapr (fun q => {| p_stmts := []; p_ret := BFor q |}) (parse_for fuel r)
        | (KLet, _) :: r => bindr (parse_let r) (fun xe r' => more (SLet (fst xe) (snd xe)) r')
        | _ => if is_call_start ts then bindr (call_stmt fuel ts) (fun c r' => more (SCall c) r')
               else PFail
        end
    end.
End WithExpr.

(* ------------------------------------------------- the expression levels *)
Section WithChoice.
  Variable choice : nat -> bool.

  Fixpoint parse_at (fuel : nat) (tb : bool) (lv : nat) (ts : toks) {struct fuel} : pres expr :=
    match fuel with
    | O => PFuel
    | S f =>
        let pe := parse_at f in
        match lv with
        | 1%nat => bindr (pe tb 2%nat ts) (tern_loop pe tb f)
        | 4%nat =>
            match ts with
            | (k, _) :: r =>
                match unop_of k with
                | Some o => mapr (EUn o) (pe tb 4%nat r)
                | None => pe tb 5%nat ts
                end
            | [] => PFail
            end
        | 0%nat | 2%nat | 3%nat | 5%nat | 6%nat | 7%nat | 8%nat | 9%nat | 10%nat | 11%nat =>
            bindr (pe tb (S lv) ts) (bin_loop pe tb f lv)
        | _ => primary choice pe tb f ts
        end
    end.
End WithChoice.

Definition fuel_for (ts : toks) : nat := (64 * List.length ts + 80)%nat.

(* one reading: the expression / the program at the front of [ts] and what
   is left over, with the undecided '?' read as [choice] says *)
Definition parse_expr_with (choice : nat -> bool) (ts : toks) : pres expr :=
  let f := fuel_for ts in parse_at choice f false 1%nat ts.

(* (a start rule without EOF does no more than this) *)
Definition parse_prefix_with (choice : nat -> bool) (ts : toks) : pres program :=
  let f := fuel_for ts in parse_body (parse_at choice f) f ts.

(* the reading must cover the whole token list *)
Definition whole {A} (r : pres A) : pres A :=
  match r with
  | POk a [] => POk a []
  | POk _ (_ :: _) => PFail
  | PFail => PFail
  | PFuel => PFuel
  end.

(* the '?' tokens directly after ')' whose reading the next tokens do not
   settle, identified by the number of tokens after them, leftmost first *)
Fixpoint q_candidates (ts : toks) : list nat :=
  match ts with
  | (KRParen, _) :: (((KQuestion, _) :: r) as t) =>
      match q_decide true r with
      | QAsk => List.length r :: q_candidates t
      | _ => q_candidates t
      end
  | _ :: r => q_candidates r
  | [] => []
  end.

(* the oracle that reads exactly the candidates in [terns] as ternaries *)
Definition choice_of (terns : list nat) (n : nat) : bool := negb (existsb (Nat.eqb n) terns).

(* first success in preference order: for the leftmost candidate the error
   operator (with every reading of the others) before the ternary *)
Fixpoint search {A} (run : list nat -> pres A) (cands : list nat) (terns : list nat) : pres A :=
  match cands with
  | [] => run terns
  | p :: rest =>
      match search run rest terns with
      | PFail => search run rest (p :: terns)
      | x => x
      end
  end.

Definition parse_expr (ts : toks) : pres expr :=
  search (fun terns => whole (parse_expr_with (choice_of terns) ts)) (q_candidates ts) [].

(* a query is a program followed by the end of the input, under some reading;
   PFuel (out of fuel under some reading before a success) is reported by the
   checks as a mismatch of its own *)
Definition parse_query (ts : toks) : pres program :=
  search (fun terns => whole (parse_prefix_with (choice_of terns) ts)) (q_candidates ts) [].

Definition parse_program (ts : toks) : option program :=
  match parse_query ts with
  | POk p _ => Some p
  | _ => None
  end.

Definition unsupported_kind (k : kind) : bool :=
  match k with KUse | KWaitfor => true | _ => false end.
(* the text uses USE or WAITFOR, which this model does not cover *)
Definition uses_unsupported (ts : toks) : bool := existsb (fun t => unsupported_kind (fst t)) ts.

Definition parse_text (q : bytes) : option program :=
  match lex q with
  | Some ts => parse_program ts
  | None => None
  end.
