(* Interleave.v — C12: k runs of one compiled program, interleaved by an
   arbitrary schedule.  Definitions only; lemmas are in Proofs/InterleaveProofs.v.

   The shared, immutable part (the expression tree built by the compiler, the
   function table) is a value [tr : Tree]; everything a run can change — its
   scopes, iterators, accumulators, its parameters in the context, its result —
   is its [Local].  One atomic action of a run is [step tr l]: it may READ the
   tree and its own local state and returns the new local state.  That a step
   cannot write the tree or another run's state is expressed by the TYPE of
   [step] (it returns no Tree and sees no other Local); for the real evaluator
   this typing is what Generated/GenTreeWrites.v has to justify (no run-path
   method stores into a tree-attached object; no unsynchronised package-level
   state in the library), cross-checked by the race detector in the harness. *)
From Ferret Require Import Base.

(* ---------- rows of the generated fact tables ---------- *)
Record tree_write := mkTW { tw_type : string; tw_method : string; tw_writes : bool; tw_line : N }.
Record global_var := mkGV { gv_pkg : string; gv_name : string; gv_unsync : bool; gv_line : N }.

Definition tree_writes_ok (t : list tree_write) : bool :=
  negb (Nat.eqb (List.length t) 0) && forallb (fun r => negb (tw_writes r)) t.
Definition globals_ok (g : list global_var) : bool := forallb (fun r => negb (gv_unsync r)) g.

(* ---------- the interleaving model ---------- *)
Section Interleave.
  Variables (Tree Local : Type).
  Variable step : Tree -> Local -> Local.

  Fixpoint upd_at (i : nat) (f : Local -> Local) (l : list Local) : list Local :=
    match l, i with
    | [], _ => []
    | x :: r, O => f x :: r
    | x :: r, S k => x :: upd_at k f r
    end.

  (* the schedule names, at every instant, the run that takes the next step *)
  Definition run_sched (tr : Tree) (sched : list nat) (s : list Local) : list Local :=
    fold_left (fun st i => upd_at i (step tr) st) sched s.

  Fixpoint iter (n : nat) (f : Local -> Local) (x : Local) : Local :=
    match n with O => x | S k => iter k f (f x) end.

  Fixpoint count (i : nat) (sched : list nat) : nat :=
    match sched with
    | [] => O
    | j :: r => (if Nat.eqb j i then 1 else 0) + count i r
    end.

  (* a run executed alone for n steps *)
  Definition solo (tr : Tree) (n : nat) (l : Local) : Local := iter n (step tr) l.
End Interleave.

(* ---------- runs that finish, and what they return ---------- *)
Section Runs.
  Variables (Tree Local Params Bytes : Type).
  Variable step : Tree -> Local -> Local.
  Variable start : Params -> Local.               (* Program.Run: fresh root scope, parameters in the context *)
  Variable finished : Local -> bool.
  Variable result : Local -> Bytes.
  Variable params_of : Local -> Params.           (* the parameters a run sees *)

  (* a finished run does nothing more; a step never changes the run's parameters *)
  Definition stutters : Prop := forall tr l, finished l = true -> step tr l = l.
  Definition keeps_params : Prop := forall tr l, params_of (step tr l) = params_of l.
  Definition start_params : Prop := forall p, params_of (start p) = p.
End Runs.

(* ---------- a concrete instance (non-vacuity): a tiny stack evaluator ---------- *)
Inductive instr := IPush (z : Z) | IParam | IAdd | IMul.
Record mlocal := mkML { ml_pc : nat; ml_stack : list Z; ml_param : Z }.

Definition mstep (prog : list instr) (l : mlocal) : mlocal :=
  match nth_error prog (ml_pc l) with
  | None => l
  | Some i =>
      let st := ml_stack l in
      let st' := match i, st with
                 | IPush z, _ => z :: st
                 | IParam, _ => ml_param l :: st
                 | IAdd, a :: b :: r => (a + b) :: r
                 | IMul, a :: b :: r => (a * b) :: r
                 | _, _ => st
                 end in
      mkML (S (ml_pc l)) st' (ml_param l)
  end.
Definition mstart (p : Z) : mlocal := mkML 0 [] p.
Definition mfinished (prog : list instr) (l : mlocal) : bool := Nat.leb (List.length prog) (ml_pc l).
Definition mresult (l : mlocal) : list Z := ml_stack l.

(* ---------- the observations of the correspondence check ---------- *)
(* per program: did all runs with equal parameters return the bytes of the
   first run (sequentially / concurrently); did every run with its own
   parameter value return exactly what a solo run with that value returns.
   The model predicts [true] for all three (rerun_same_bytes, params_isolated). *)
Definition predicted : bool := true.
