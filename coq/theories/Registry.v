(* Registry.v — the compiler's function table and what one Compile call does
   to it (pkg/runtime/core/function.go Functions, pkg/compiler/namespace.go,
   pkg/compiler/compiler.go Compile, pkg/compiler/visitor.go visitHeads /
   visitHead / copyFromNamespace / visitFunctionCall).  Definitions only.

   A function is represented by an identifier (fid); the table is a finite map
   from the UPPER-CASED qualified name "NS::SUB::NAME" to the function, kept
   as an association list without duplicate keys (Functions.Set overwrites).
   Go's map iteration order (Functions.Names) is the order of the list: the
   only place where it is observable is the partially updated table left
   behind by a failing USE on the pinned tree. *)
From Ferret Require Export Base.

Definition name := bytes.
Definition fid := N.
Definition table := list (name * fid).

(* strings.ToUpper on the ASCII names the lexer and RegisterFunction accept *)
Definition up_byte (b : N) : N :=
  if ((97 <=? b) && (b <=? 122))%N then (b - 32)%N else b.
Definition upper (s : bytes) : bytes := map up_byte s.

Definition sep : bytes := [58%N; 58%N].                      (* "::" *)

(* ---- core.Functions: raw map operations on already upper-cased keys *)
Fixpoint get (t : table) (n : name) : option fid :=
  match t with
  | [] => None
  | (k, f) :: r => if bytes_eqb k n then Some f else get r n
  end.
Definition has (t : table) (n : name) : bool :=
  match get t n with Some _ => true | None => false end.
Fixpoint set (t : table) (n : name) (f : fid) : table :=
  match t with
  | [] => [(n, f)]
  | (k, g) :: r => if bytes_eqb k n then (k, f) :: r else (k, g) :: set r n f
  end.
Fixpoint unset (t : table) (n : name) : table :=
  match t with
  | [] => []
  | (k, g) :: r => if bytes_eqb k n then r else (k, g) :: unset r n
  end.
(* Functions.Get / Set / Unset upper-case the name they are given *)
Definition fget (t : table) (n : name) : option fid := get t (upper n).
Definition fset (t : table) (n : name) (f : fid) : table := set t (upper n) f.
Definition funset (t : table) (n : name) : table := unset t (upper n).
Definition names (t : table) : list name := map fst t.

(* ---- namespace.go *)
Fixpoint is_prefix (p s : bytes) : bool :=
  match p, s with
  | [], _ => true
  | x :: p', y :: s' => (x =? y)%N && is_prefix p' s'
  | _ :: _, [] => false
  end.
Fixpoint contains_sep (s : bytes) : bool :=
  match s with
  | [] => false
  | _ :: r => is_prefix sep s || contains_sep r
  end.

Definition is_letter (b : N) : bool :=
  ((65 <=? b) && (b <=? 90) || (97 <=? b) && (b <=? 122))%N.
Definition is_word (b : N) : bool :=
  (is_letter b || (48 <=? b) && (b <=? 57) || (b =? 95))%N.
(* fnNameValidation (a regular expression): one or more segments separated
   by "::", each segment a letter followed by letters, digits, underscores.
   [start] = we are at the first character of a segment. *)
Fixpoint valid_from (start : bool) (s : bytes) : bool :=
  match s with
  | [] => negb start
  | b :: r =>
      if start then is_letter b && valid_from false r
      else if is_word b then valid_from false r
      else match r with
           | c :: r' => (b =? 58)%N && (c =? 58)%N && valid_from true r'
           | [] => false
           end
  end.
Definition valid_name (s : bytes) : bool := valid_from true s.

(* NamespaceContainer.makeFullName; a container's own name is upper-cased by
   newNamespace *)
Definition make_full (ns nm : name) : name :=
  match ns with [] => nm | _ => ns ++ sep ++ nm end.
Definition sub_namespace (ns nm : name) : name := upper (make_full ns nm).

(* RegisterFunction: None = an error is returned and nothing changes *)
Definition register (t : table) (ns nm : name) (f : fid) : option table :=
  let full := make_full ns nm in
  if has t (upper full) then None                       (* function already exists *)
  else if contains_sep nm then None                     (* invalid function name *)
  else if negb (valid_name full) then None              (* invalid function or namespace name *)
  else Some (fset t full f).
Definition remove (t : table) (ns nm : name) : table := funset t (make_full ns nm).
Definition registered_functions (t : table) (ns : name) : list name :=
  match ns with
  | [] => names t
  | _ => filter (is_prefix (ns ++ sep)) (names t)
  end.

(* ---- a query, as far as the registry is concerned *)
Record query := Query {
  q_ok : bool;              (* non-empty and syntactically well formed: a malformed
                               text is rejected by the parser before the visitor runs *)
  q_uses : list name;       (* the namespaces of its USE heads, as written *)
  q_calls : list name       (* the (qualified) names of its function calls, as written *)
}.

Inductive result := Compiled (ids : list fid) | CompileError.

(* copyFromNamespace(fns, ns): for every name of a snapshot of the table that
   starts with upper(ns ++ "::"), register the rest of the name; stop with an
   error (leaving what was copied so far) when the rest is already there.
   The keys of the table are upper-cased, hence so is [rest], and the ToUpper
   inside fns.Get/Set is the identity on it (RegistryProofs.keys_upper). *)
Fixpoint copy_loop (pfx : bytes) (snap cur : table) : bool * table :=
  match snap with
  | [] => (true, cur)
  | (n, f) :: r =>
      if is_prefix pfx n then
        let rest := skipn (List.length pfx) n in
        if has cur rest then (false, cur)               (* collision occurred *)
        else copy_loop pfx r (set cur rest f)
      else copy_loop pfx r cur
  end.
Definition copy_from_namespace (t : table) (ns : name) : bool * table :=
  copy_loop (upper (ns ++ sep)) t t.

(* visitHeads: the set of namespaces already used is keyed by the text as written *)
Fixpoint do_uses (used uses : list name) (cur : table) : bool * table :=
  match uses with
  | [] => (true, cur)
  | ns :: r =>
      if existsb (bytes_eqb ns) used then (false, cur)  (* namespace already used *)
      else match copy_from_namespace cur ns with
           | (true, cur') => do_uses (ns :: used) r cur'
           | (false, cur') => (false, cur')
           end
  end.

(* visitFunctionCall: v.funcs.Get(namespace text ++ function name) *)
Fixpoint resolve (t : table) (calls : list name) : option (list fid) :=
  match calls with
  | [] => Some []
  | c :: r =>
      match fget t c, resolve t r with
      | Some f, Some fs => Some (f :: fs)
      | _, _ => None                                    (* not found: function *)
      end
  end.

(* what the visitor does with the function table it was given *)
Definition run_visitor (t : table) (q : query) : result * table :=
  if negb (q_ok q) then (CompileError, t)
  else match do_uses [] (q_uses q) t with
       | (false, t') => (CompileError, t')
       | (true, t') =>
           (match resolve t' (q_calls q) with
            | Some ids => Compiled ids
            | None => CompileError
            end, t')
       end.

(* The pinned tree: Compile hands the visitor the compiler's own table
   (newVisitor(query, c.funcs)), so whatever USE copies stays there. *)
Definition compile_pinned (s : table) (q : query) : result * table := run_visitor s q.

(* The specified behaviour: imports go into a copy that lives for this
   compilation only. *)
Definition compile_spec (s : table) (q : query) : result * table :=
  (fst (run_visitor s q), s).

(* the state of a compiler after a history of Compile calls *)
Definition after (compile : table -> query -> result * table) (s0 : table) (h : list query) : table :=
  fold_left (fun s x => snd (compile s x)) h s0.
Fixpoint run_alone (compile : table -> query -> result * table) (s : table) (qs : list query)
  : list result :=
  match qs with
  | [] => []
  | q :: r => let (x, s') := compile s q in x :: run_alone compile s' r
  end.

(* ---- concurrent compilations on one compiler: threads take turns as a
   schedule dictates; one turn = one whole Compile call of that thread against
   the shared table.  (Finer interleavings are harmless exactly when a
   compilation does not write the shared table, which is what [compile_pure]
   says; the race detector is the dynamic cross-check of that.) *)
Record conc := Conc {
  shared : table;
  pending : nat -> list query;
  outs : nat -> list result
}.
Definition upd {A} (f : nat -> A) (i : nat) (x : A) : nat -> A :=
  fun j => if Nat.eqb j i then x else f j.
Definition turn (compile : table -> query -> result * table) (c : conc) (i : nat) : conc :=
  match pending c i with
  | [] => c
  | q :: rest =>
      let (x, s') := compile (shared c) q in
      Conc s' (upd (pending c) i rest) (upd (outs c) i (outs c i ++ [x]))
  end.
Definition run_sched compile (sched : list nat) (c : conc) : conc :=
  fold_left (turn compile) sched c.
Definition start (s0 : table) (threads : nat -> list query) : conc :=
  Conc s0 threads (fun _ => []).
