(* Eval.v — the reference evaluator for the FQL core language: a fuelled
   big-step interpreter over the run-time scope chain (as core.Scope builds it),
   threaded through a world that records instrumented calls, cancellation and
   closable registrations.  It shares no code with the repository.
   Definitions only. *)
From Ferret Require Export Syntax FloatOps Compare Match.

(* ------------------------------------------------------------------ outcomes *)
Inductive errclass :=
| EScopeNotFound      (* not found: variable *)
| EScopeNotUnique     (* variable is already declared *)
| EScopeUnnamed       (* missed argument: value variable *)
| EType               (* invalid type *)
| EPath               (* cannot read property / path type error *)
| EFunc               (* a library function returned an error *)
| ETerminated         (* operation is terminated *)
| EParamNotFound
| EOther.

Inductive outcome (A : Type) :=
| Ok (a : A)
| Err (e : errclass)
| PanicStr                 (* panic(string) *)
| PanicErr                 (* Go run-time error or panic(error) *)
| PanicOther               (* panic(any other value) *)
| OutOfFuel
| OutOfDomain.             (* outside what the model defines (inexact float, ...) *)
Arguments Ok {A} a.
Arguments Err {A} e.
Arguments PanicStr {A}.
Arguments PanicErr {A}.
Arguments PanicOther {A}.
Arguments OutOfFuel {A}.
Arguments OutOfDomain {A}.

Definition recast {A B} (o : outcome A) : outcome B :=
  match o with
  | Ok _ => OutOfDomain        (* never used on Ok *)
  | Err e => Err e
  | PanicStr => PanicStr | PanicErr => PanicErr | PanicOther => PanicOther
  | OutOfFuel => OutOfFuel | OutOfDomain => OutOfDomain
  end.

(* ------------------------------------------------------------------ the world *)
(* what evaluation can do to the outside: call a library function, register a
   closable.  Closing and serialising are not among them (RunApi.v). *)
Inductive event :=
| EvCall (f : name) (args : list value)
| EvBind (id : Z).                 (* a closable value was registered *)

Record world := {
  w_trace : list event;            (* newest first *)
  w_cancelled : bool;
  w_cancel_at : option N;          (* cancel inside the k-th instrumented call (0-based) *)
  w_ncalls : N;
  w_closers : list Z;              (* registration order, newest first *)
  w_params : list (name * value);
  w_fail_at : option (N * N)       (* the k-th instrumented call fails instead of running:
                                      kind 0 error, 1 panic(string), 2 panic(error), 3 panic(other) *)
}.

Definition M (A : Type) := world -> outcome A * world.
Definition ret {A} (a : A) : M A := fun w => (Ok a, w).
Definition fail {A} (o : outcome A) : M A := fun w => (o, w).
Definition bind {A B} (m : M A) (k : A -> M B) : M B :=
  fun w => match m w with
           | (Ok a, w') => k a w'
           | (o, w') => (recast o, w')
           end.
Notation "'do' x <- m ; k" := (bind m (fun x => k))
  (at level 200, x pattern, m at level 100, k at level 200, right associativity).
Definition lift {A} (o : outcome A) : M A := fun w => (o, w).

Definition check_ctx : M unit :=
  fun w => if w_cancelled w then (Err ETerminated, w) else (Ok tt, w).

Definition log (e : event) : M unit :=
  fun w => (Ok tt, {| w_trace := e :: w_trace w; w_cancelled := w_cancelled w;
                      w_cancel_at := w_cancel_at w; w_ncalls := w_ncalls w;
                      w_closers := w_closers w; w_params := w_params w; w_fail_at := w_fail_at w |}).
Definition set_cancelled : M unit :=
  fun w => (Ok tt, {| w_trace := w_trace w; w_cancelled := true;
                      w_cancel_at := w_cancel_at w; w_ncalls := w_ncalls w;
                      w_closers := w_closers w; w_params := w_params w; w_fail_at := w_fail_at w |}).
Definition count_call : M unit :=
  fun w =>
    let hit := match w_cancel_at w with Some k => (k =? w_ncalls w)%N | None => false end in
    (Ok tt, {| w_trace := w_trace w; w_cancelled := w_cancelled w || hit;
               w_cancel_at := w_cancel_at w; w_ncalls := (w_ncalls w + 1)%N;
               w_closers := w_closers w; w_params := w_params w; w_fail_at := w_fail_at w |}).
Definition add_closer (id : Z) : M unit :=
  fun w => (Ok tt, {| w_trace := EvBind id :: w_trace w; w_cancelled := w_cancelled w;
                      w_cancel_at := w_cancel_at w; w_ncalls := w_ncalls w;
                      w_closers := id :: w_closers w; w_params := w_params w; w_fail_at := w_fail_at w |}).

(* ------------------------------------------------------------------ scopes *)
Definition frame := list (name * value).
Definition frames := list frame.           (* innermost first; never empty *)

Fixpoint frame_get (x : name) (f : frame) : option value :=
  match f with
  | [] => None
  | (k, v) :: r => if bytes_eqb k x then Some v else frame_get x r
  end.
Fixpoint scope_get (x : name) (sc : frames) : option value :=
  match sc with
  | [] => None
  | f :: r => match frame_get x f with Some v => Some v | None => scope_get x r end
  end.
Definition fork (sc : frames) : frames := [] :: sc.

Definition ignore_name : name := bs "_".

(* closable values made by the harness function CLOSER(id) are rendered as the
   string "#closer:" ++ decimal id; the marker is recognised when bound *)
Definition closer_prefix : bytes := bs "#closer:".
Fixpoint strip_prefix (p s : bytes) : option bytes :=
  match p, s with
  | [], _ => Some s
  | a :: p', b :: s' => if (a =? b)%N then strip_prefix p' s' else None
  | _, [] => None
  end.
Fixpoint parse_digits (s : bytes) (acc : Z) : option Z :=
  match s with
  | [] => Some acc
  | c :: r => if (48 <=? c)%N && (c <=? 57)%N then parse_digits r (acc * 10 + Z.of_N (c - 48)) else None
  end.
Definition closer_id (v : value) : option Z :=
  match v with
  | VStr s => match strip_prefix closer_prefix s with
              | Some (c :: r) => parse_digits (c :: r) 0
              | _ => None
              end
  | _ => None
  end.

(* core.Scope.SetVariable *)
Definition set_var (x : name) (v : value) (sc : frames) : M frames :=
  match sc with
  | [] => fail OutOfDomain
  | f :: r =>
      do sc' <- (if bytes_eqb x ignore_name then ret sc
                 else match frame_get x f with
                      | Some _ => fail (Err EScopeNotUnique)
                      | None => ret (((x, v) :: f) :: r)
                      end);
      match closer_id v with
      | Some id => do _ <- add_closer id; ret sc'
      | None => ret sc'
      end
  end.
Definition get_var (x : name) (sc : frames) : M value :=
  match scope_get x sc with Some v => ret v | None => fail (Err EScopeNotFound) end.
(* UpdateVariable: replace in the current frame *)
Fixpoint frame_update (x : name) (v : value) (f : frame) : frame :=
  match f with
  | [] => []
  | (k, o) :: r => if bytes_eqb k x then (k, v) :: r else (k, o) :: frame_update x v r
  end.

(* ------------------------------------------------------------------ coercions *)
Definition to_bool (v : value) : bool :=
  match v with
  | VBool b => b
  | VStr s => match s with [] => false | _ => true end
  | VInt z => negb (z =? 0)
  | VFloat f => negb (f_is_zero f)
  | VDate s n _ => negb ((s =? -62135596800) && (n =? 0))     (* time.Time.IsZero *)
  | VNone => false
  | _ => true
  end.

Fixpoint digits_of_pos (fuel : nat) (z : Z) (acc : bytes) : bytes :=
  match fuel with
  | O => acc
  | S k => if z <? 10 then (Z.to_N z + 48)%N :: acc
           else digits_of_pos k (z / 10) ((Z.to_N (z mod 10) + 48)%N :: acc)
  end.
Definition int_to_string (z : Z) : bytes :=
  if z <? 0 then 45%N :: digits_of_pos 20 (- z) [] else digits_of_pos 20 z [].

(* strconv.ParseInt(s, 10, 64) restricted to what it accepts: optional sign,
   digits, within int64; anything else -> None (callers use 0) *)
Definition parse_int (s : bytes) : option Z :=
  let '(neg, ds) := match s with
                    | 45%N :: r => (true, r)
                    | 43%N :: r => (false, r)
                    | _ => (false, s)
                    end in
  match ds with
  | [] => None
  | _ => match parse_digits ds 0 with
         | Some z => let z' := if neg then - z else z in
                     if (- 2 ^ 63 <=? z') && (z' <? 2 ^ 63) then Some z' else None
         | None => None
         end
  end.

(* values.ToInt; arrays sum their elements *)
Fixpoint to_int (v : value) : outcome Z :=
  match v with
  | VInt z => Ok z
  | VFloat f => match f_trunc f with Some z => Ok z | None => OutOfDomain end
  | VStr s => Ok (match parse_int s with Some z => z | None => 0 end)
  | VBool b => Ok (if b then 1 else 0)
  | VDate s n _ => Ok (if (s =? -62135596800) && (n =? 0) then 0 else s)
  | VArr l =>
      (fix go (l : list value) (acc : Z) : outcome Z :=
         match l with
         | [] => Ok acc
         | x :: r => match to_int x with Ok z => go r (wrap64 (acc + z)) | o => o end
         end) l 0
  | _ => Ok 0
  end.

Definition has_dot (s : bytes) : bool := existsb (fun c => (c =? 46)%N) s.

(* operators.ToNumberOnly: result is VInt or VFloat *)
Fixpoint to_number_only (v : value) : outcome value :=
  match v with
  | VInt _ | VFloat _ => Ok v
  | VStr s => if has_dot s then OutOfDomain          (* ParseFloat is not modelled *)
              else Ok (VInt (match parse_int s with Some z => z | None => 0 end))
  | VArr l =>
      match l with
      | [] => Ok (VInt 0)
      | _ =>
          match (fix go (l : list value) (i : Z) (f : N) : outcome (Z * N) :=
                   match l with
                   | [] => Ok (i, f)
                   | x :: r =>
                       match to_number_only x with
                       | Ok (VInt z) => go r (wrap64 (i + z)) f
                       | Ok (VFloat g) => match f_add f g with Some f' => go r i f' | None => OutOfDomain end
                       | Ok _ => OutOfDomain
                       | o => recast o
                       end
                   end) l 0 0%N with
          | Ok (i, f) =>
              if f_is_zero f then Ok (VInt i)
              else match f_of_int i with
                   | Some fi => match f_add fi f with Some r => Ok (VFloat r) | None => OutOfDomain end
                   | None => OutOfDomain
                   end
          | o => recast o
          end
      end
  | _ => match to_int v with Ok z => Ok (VInt z) | o => recast o end
  end.

Definition to_number_or_string (v : value) : outcome value :=
  match v with
  | VInt _ | VFloat _ | VStr _ => Ok v
  | _ => match to_int v with Ok z => Ok (VInt z) | o => recast o end
  end.

(* String() of the values Add can concatenate.  Float.String is %v: modelled
   for integral floats below 2^53 only. *)
Definition num_to_string (v : value) : outcome bytes :=
  match v with
  | VInt z => Ok (int_to_string z)
  | VStr s => Ok s
  | VFloat f =>
      let s := fscaled f in
      if (Z.land (Z.abs s) (Z.ones 1074) =? 0) && (Z.abs s <? Z.shiftl (2 ^ 53) 1074) then
        let z := Z.sgn s * Z.shiftr (Z.abs s) 1074 in
        if (z =? 0) && f_sign f then Ok (bs "-0") else Ok (int_to_string z)
      else OutOfDomain
  | _ => OutOfDomain
  end.

(* ------------------------------------------------------------------ operators *)
Definition opt_float (o : option N) : outcome value :=
  match o with Some f => Ok (VFloat f) | None => OutOfDomain end.
Definition with_float (z : Z) (k : N -> outcome value) : outcome value :=
  match f_of_int z with Some f => k f | None => OutOfDomain end.

Definition arith (io : Z -> Z -> Z) (fo : N -> N -> option N) (l r : value) : outcome value :=
  match l, r with
  | VInt a, VInt b => Ok (VInt (wrap64 (io a b)))
  | VInt a, VFloat g => with_float a (fun f => opt_float (fo f g))
  | VFloat f, VFloat g => opt_float (fo f g)
  | VFloat f, VInt b => with_float b (fun g => opt_float (fo f g))
  | _, _ => Ok (VInt 0)
  end.

Definition op_add (a b : value) : outcome value :=
  match to_number_or_string a, to_number_or_string b with
  | Ok l, Ok r =>
      match l, r with
      | VStr _, _ | _, VStr _ =>
          match num_to_string l, num_to_string r with
          | Ok x, Ok y => Ok (VStr (x ++ y))
          | Ok _, o => recast o
          | o, _ => recast o
          end
      | _, _ => arith Z.add f_add l r
      end
  | Ok _, o => recast o
  | o, _ => recast o
  end.

Definition on_numbers (a b : value) (k : value -> value -> outcome value) : outcome value :=
  match to_number_only a, to_number_only b with
  | Ok l, Ok r => k l r
  | Ok _, o => recast o
  | o, _ => recast o
  end.

Definition op_sub a b := on_numbers a b (arith Z.sub f_sub).
Definition op_mul a b := on_numbers a b (arith Z.mul f_mul).

Definition op_div (a b : value) : outcome value :=
  on_numbers a b (fun l r =>
    let tof v := match v with
                 | VInt z => f_of_int z
                 | VFloat f => Some f
                 | _ => None
                 end in
    match tof l, tof r with
    | Some f, Some g => if f_is_zero g then PanicStr else opt_float (f_div f g)
    | _, _ => OutOfDomain
    end).

(* Go's % on int64: remainder with the sign of the dividend; x % 0 panics with a
   run-time error (an error value) *)
Definition op_mod (a b : value) : outcome value :=
  on_numbers a b (fun l r =>
    let toi v := match v with
                 | VInt z => Some z
                 | VFloat f => f_trunc f
                 | _ => None
                 end in
    match toi l, toi r with
    | Some x, Some y => if y =? 0 then PanicErr else Ok (VInt (Z.rem x y))
    | _, _ => OutOfDomain
    end).

Definition op_math (o : mathop) : value -> value -> outcome value :=
  match o with
  | MAdd => op_add | MSub => op_sub | MMul => op_mul | MDiv => op_div | MMod => op_mod
  end.

Definition op_cmp (o : cmpop) (a b : value) : bool :=
  match o with
  | CEq => op_eq a b | CNe => op_ne a b | CLt => op_lt a b
  | CLe => op_le a b | CGt => op_gt a b | CGe => op_ge a b
  end.

Definition op_un (o : unop) (v : value) : value :=
  match o with
  | UNot => VBool (negb (to_bool v))
  | UNeg => match v with
            | VInt z => VInt (wrap64 (- z))
            | VFloat f => VFloat (f_opp f)
            | _ => v
            end
  | UPos => v
  end.

(* Array.IndexOf uses Compare *)
Definition op_in (neg : bool) (a b : value) : value :=
  match b with
  | VArr l => VBool (xorb neg (contains l a))
  | _ => VBool false
  end.

Definition qcmp_eval (c : qcmp) (el v : value) : bool :=
  match c with
  | QCmp o => op_cmp o el v
  | QIn neg => match op_in neg el v with VBool b => b | _ => false end
  end.
Definition op_quant (q : quant) (c : qcmp) (a b : value) : value :=
  match a with
  | VArr l =>
      match q with
      | QAll => VBool (match l with [] => false | _ => forallb (fun el => qcmp_eval c el b) l end)
      | QAny => VBool (existsb (fun el => qcmp_eval c el b) l)
      | QNone => VBool (match l with [] => false | _ => negb (existsb (fun el => qcmp_eval c el b) l) end)
      end
  | _ => VBool false
  end.

Definition op_range (a b : value) : outcome value :=
  let toi v := match v with
               | VInt z => Ok z
               | VFloat f => match f_trunc f with Some z => Ok z | None => OutOfDomain end
               | _ => Err EType
               end in
  match toi a, toi b with
  | Ok x, Ok y => if 4096 <? y - x then OutOfDomain      (* keep model ranges small *)
                  else Ok (VArr (map VInt (nat_seq_Z (Z.to_nat (y - x + 1)) x)))
  | Ok _, o => recast o
  | o, _ => recast o
  end.

(* ------------------------------------------------------------------ member access *)
Fixpoint assoc_last (k : bytes) (m : list (bytes * value)) (acc : option value) : option value :=
  match m with
  | [] => acc
  | (k', v) :: r => assoc_last k r (if bytes_eqb k k' then Some v else acc)
  end.
Definition obj_get (m : list (bytes * value)) (k : bytes) : value :=
  match assoc_last k m None with Some v => v | None => VNone end.

(* Array.Get: a position outside the array (beyond the end, or negative) -> none *)
Definition arr_get (l : list value) (i : Z) : outcome value :=
  match l with
  | [] => Ok VNone
  | _ => if (Z.of_nat (length l) - 1 <? i) || (i <? 0) then Ok VNone
         else Ok (nth (Z.to_nat i) l VNone)
  end.

Definition seg_to_key (s : value) : outcome bytes :=
  match s with
  | VStr k => Ok k
  | VInt z => Ok (int_to_string z)
  | _ => OutOfDomain
  end.

(* path result: the value, or a path error carrying the segment index as the
   code computes it (relative to the sub-path handed to a nested getter) *)
Inductive pathres := PVal (v : value) | PErr (segment : nat) | POut (o : outcome value).

Definition is_ascii (s : bytes) : bool := forallb (fun c => (c <? 128)%N) s.

(* values.GetIn on a non-getter (scalar) source *)
Fixpoint getin_loop (cur : value) (path : list value) (i : nat) : pathres :=
  match path with
  | [] => PVal cur
  | s :: rest =>
      match cur with
      | VNone => PVal VNone
      | VObj m => match seg_to_key s with
                  | Ok k => getin_loop (obj_get m k) rest (S i)
                  | o => POut (recast o)
                  end
      | VArr l => match s with
                  | VInt z => match arr_get l z with
                              | Ok v => getin_loop v rest (S i)
                              | o => POut o
                              end
                  | _ => PErr i
                  end
      | VStr str => match s with
                    | VInt z =>
                        if negb (is_ascii str) then POut OutOfDomain
                        else if (z <? 0) || (Z.of_nat (length str) <=? z) then POut PanicErr
                        else getin_loop (VStr [nth (Z.to_nat z) str 0%N]) rest (S i)
                    | _ => PErr i
                    end
      | _ => PErr i
      end
  end.

(* Array.GetIn / Object.GetIn / values.GetIn dispatch of MemberExpression *)
Fixpoint getin (fuel : nat) (src : value) (path : list value) : pathres :=
  match fuel with
  | O => POut OutOfFuel
  | S fuel' =>
      match path with
      | [] => PVal VNone
      | s :: rest =>
          let continue_with (first : value) :=
            match rest with
            | [] => PVal first
            | _ => match first with
                   | VNone => PErr 1
                   | VArr _ | VObj _ => getin fuel' first rest
                   | _ => getin_loop first rest 0
                   end
            end in
          match src with
          | VArr l => match s with
                      | VInt z => match arr_get l z with
                                  | Ok v => continue_with v
                                  | o => POut o
                                  end
                      | _ => PErr 0
                      end
          | VObj m => match seg_to_key s with
                      | Ok k => continue_with (obj_get m k)
                      | o => POut (recast o)
                      end
          | _ => getin_loop src path 0
          end
      end
  end.

(* ------------------------------------------------------------------ library *)
(* Functions the harness registers (same behaviour on the Go side):
   T(args..)      -> last argument (none without arguments)
   ARR(args..)    -> array of its arguments
   FAIL(args..)   -> returns an error
   PANIC_S/E/O()  -> panics with a string / an error / another value
   CANCEL()       -> cancels the run's context, returns none
   CLOSER(id)     -> a closable value (rendered "#closer:<id>")
   Every call is logged and counted; the k-th call may cancel the context. *)
Definition fn_known (f : name) : bool :=
  existsb (bytes_eqb f)
    [bs "T"; bs "ARR"; bs "FAIL"; bs "PANIC_S"; bs "PANIC_E"; bs "PANIC_O"; bs "PANIC_N"; bs "PANIC_C"; bs "CANCEL"; bs "CLOSER"].

Definition injected_failure : M unit :=
  fun w => match w_fail_at w with
           | Some (k, kind) =>
               if (k + 1 =? w_ncalls w)%N then
                 ((if (kind =? 0)%N then Err EFunc else if (kind =? 1)%N then PanicStr
                   else if (kind =? 2)%N then PanicErr else PanicOther), w)
               else (Ok tt, w)
           | None => (Ok tt, w)
           end.

Definition call_fn (f : name) (args : list value) : M value :=
  do _ <- log (EvCall f args);
  do _ <- count_call;
  do _ <- injected_failure;
  if bytes_eqb f (bs "T") then ret (last args VNone)
  else if bytes_eqb f (bs "ARR") then ret (VArr args)
  else if bytes_eqb f (bs "FAIL") then fail (Err EFunc)
  else if bytes_eqb f (bs "PANIC_S") then fail PanicStr
  else if bytes_eqb f (bs "PANIC_E") then fail PanicErr
  else if bytes_eqb f (bs "PANIC_O") then fail PanicOther
  (* panic(nil): specified to end the run like any other non-string, non-error panic value *)
  else if bytes_eqb f (bs "PANIC_N") then fail PanicOther
  (* an error value that wraps nothing (its Cause() is nil): still an error-typed panic *)
  else if bytes_eqb f (bs "PANIC_C") then fail PanicErr
  else if bytes_eqb f (bs "CANCEL") then (do _ <- set_cancelled; ret VNone)
  else if bytes_eqb f (bs "CLOSER") then
    match args with
    | [VInt id] => ret (VStr (closer_prefix ++ int_to_string id))
    | _ => fail (Err EFunc)
    end
  else fail OutOfDomain.

(* ------------------------------------------------------------------ data sources *)
(* the chain of iterables ForExpression builds, innermost first *)
Inductive dsrc :=
| DIn (vv : name) (kv : option name) (e : expr)
| DWhile (do_first : bool) (vv : name) (cond : expr)
| DBlock (d : dsrc) (stmts : list fclause)          (* only CLet / CCall *)
| DFilter (d : dsrc) (e : expr)
| DSort (d : dsrc) (keys : list (expr * bool))
| DLimit (d : dsrc) (count offset : expr)
| DCollect (d : dsrc) (groups : list (name * expr)) (tail : ctail) (vv : name).

Fixpoint build_ds (d : dsrc) (vv : name) (body : list fclause) : dsrc :=
  match body with
  | [] => d
  | c :: r =>
      let d' :=
        match c with
        | CLet _ _ | CCall _ =>
            match d with
            | DBlock d0 ss => DBlock d0 (ss ++ [c])
            | _ => DBlock d [c]
            end
        | CFilter e => DFilter d e
        | CSort ks => DSort d ks
        | CLimit off cnt => DLimit d cnt (match off with Some o => o | None => EInt 0 end)
        | CCollect gs t => DCollect d gs t vv
        end in
      build_ds d' vv r
  end.

(* iterator states (collections/*.go, clauses/collect_iterator.go) *)
Inductive iter :=
| ItIndexed (vv : name) (kv : option name) (vals : list value) (pos : Z)
| ItWhile (do_first : bool) (vv : name) (cond : expr) (pos : Z)
| ItTap (src : iter) (stmts : list fclause)
| ItFilter (src : iter) (e : expr)
| ItLimit (src : iter) (count offset curr : Z)
| ItSort (src : iter) (keys : list (expr * bool)) (st : option (list frames))
| ItCollect (src : iter) (groups : list (name * expr)) (tail : ctail) (vv : name)
            (st : option (list frames)).

(* ForResult *)
Record fres := { fr_items : list value (* newest first *); fr_seen : list value }.
Definition fres_push (distinct spread pass : bool) (v : value) (r : fres) : fres :=
  if pass then r
  else
    let dup := distinct && existsb (struct_eqb v) (fr_seen r) in
    if dup then r
    else
      let seen := if distinct then v :: fr_seen r else fr_seen r in
      match spread, v with
      | true, VArr l => {| fr_items := rev l ++ fr_items r; fr_seen := seen |}
      | _, _ => {| fr_items := v :: fr_items r; fr_seen := seen |}
      end.

(* stable insertion of a row into rows sorted by a comparison *)
Fixpoint insert_by {A} (lt : A -> A -> bool) (x : A) (l : list A) : list A :=
  match l with
  | [] => [x]
  | y :: r => if lt x y then x :: l else y :: insert_by lt x r
  end.
(* stable sort: process from the right so that equal rows keep source order *)
Fixpoint sort_by {A} (lt : A -> A -> bool) (l : list A) : list A :=
  match l with
  | [] => []
  | x :: r => insert_by (fun a b => negb (lt b a)) x (sort_by lt r)
  end.

(* less-than of SortIterator: first decisive key wins; eq * direction *)
Fixpoint keys_lt (ka kb : list (value * bool)) : bool :=
  match ka, kb with
  | (a, desc) :: ra, (b, _) :: rb =>
      let c := vcompare a b in
      let c' := if desc then - c else c in
      if c' =? -1 then true else if c' =? 1 then false else keys_lt ra rb
  | _, _ => false
  end.

Definition limit_to_int (v : value) : outcome Z :=
  match v with
  | VInt z => Ok z
  | VFloat f => match f_trunc f with Some z => Ok z | None => OutOfDomain end
  | _ => Err EType
  end.

(* groups of the COLLECT iterator: key values, the frames of the group scope *)
Definition group_key_eqb (a b : list value) : bool :=
  (length a =? length b)%nat && forallb (fun p => struct_eqb (fst p) (snd p)) (combine a b).

Fixpoint find_group (k : list value) (gs : list (list value * frames)) (i : nat) : option nat :=
  match gs with
  | [] => None
  | (k', _) :: r => if group_key_eqb k k' then Some i else find_group k r (S i)
  end.
Fixpoint update_nth {A} (n : nat) (f : A -> A) (l : list A) : list A :=
  match l, n with
  | [], _ => []
  | x :: r, O => f x :: r
  | x :: r, S k => x :: update_nth k f r
  end.
Definition frame0_update (x : name) (f : value -> value) (sc : frames) : frames :=
  match sc with
  | [] => []
  | fr :: r => (match frame_get x fr with
                | Some v => frame_update x (f v) fr
                | None => fr
                end) :: r
  end.
Definition arr_push (x : value) (v : value) : value :=
  match v with VArr l => VArr (l ++ [x]) | _ => v end.

(* ------------------------------------------------------------------ the evaluator *)
Section Eval.
  (* strict = the specified cancellation behaviour: a termination error is never
     swallowed by error suppression / optional chaining, and AGGREGATE reducers
     check the context like any call.
     strict = false mirrors the pinned tree. *)
  Variable strict : bool.


Fixpoint eval_g (fuel : nat) (e : expr) (sc : frames) {struct fuel} : M value :=
  match fuel with
  | O => fail OutOfFuel
  | S fuel' =>
    let eval_g := eval_g fuel' in
    let eval_list :=
      (fix go (es : list expr) : M (list value) :=
         match es with
         | [] => ret []
         | x :: r => do v <- eval_g x sc; do vs <- go r; ret (v :: vs)
         end) in
    match e with
    | ENone => ret VNone
    | EBool b => ret (VBool b)
    | EInt z => ret (VInt z)
    | EFloat f => ret (VFloat f)
    | EStr s => ret (VStr s)
    | EArr es => do vs <- eval_list es; ret (VArr vs)
    | EObj ps =>
        (fix go (ps : list prop) (acc : list (bytes * value)) : M value :=
           match ps with
           | [] => ret (VObj acc)
           | p :: r =>
               do kv <- (match p with
                         | PNamed k e1 => do v <- eval_g e1 sc; ret (VStr k, v)
                         | PComputed k e1 => do kv <- eval_g k sc; do v <- eval_g e1 sc; ret (kv, v)
                         | PShort x => do v <- get_var x sc; ret (VStr x, v)
                         end);
               match kv with
               | (VStr k, v) =>
                   (* Object.Set: a later member with the same key replaces the earlier *)
                   go r (filter (fun q => negb (bytes_eqb (fst q) k)) acc ++ [(k, v)])
               | _ => fail (Err EType)
               end
           end) ps []
    | EVar x => get_var x sc
    | EParam x =>
        fun w => match frame_get x (w_params w) with
                 | Some v => (Ok v, w)
                 | None => (Err EParamNotFound, w)
                 end
    | EUn o a => do v <- eval_g a sc; ret (op_un o v)
    | ELog o a b =>
        do l <- eval_g a sc;
        match o with
        | LAnd => if to_bool l then eval_g b sc
                  else ret (match l with VBool _ => VBool false | _ => l end)
        | LOr => if to_bool l then ret l else eval_g b sc
        end
    | ECond c t f =>
        do cv <- eval_g c sc;
        if to_bool cv then match t with Some t' => eval_g t' sc | None => ret cv end
        else eval_g f sc
    | ECmp o a b => do l <- eval_g a sc; do r <- eval_g b sc; ret (VBool (op_cmp o l r))
    | EIn neg a b => do l <- eval_g a sc; do r <- eval_g b sc; ret (op_in neg l r)
    | EQuant q c a b => do l <- eval_g a sc; do r <- eval_g b sc; ret (op_quant q c l r)
    | ELike neg a b =>
        do l <- eval_g a sc; do r <- eval_g b sc;
        match l, r with
        | VStr s, VStr p =>
            match glob_match p s with
            | Some m => ret (VBool (xorb neg m))
            | None => fail OutOfDomain
            end
        | _, _ => ret (VBool false)          (* like.go: a non-string operand is simply "no" *)
        end
    | ERegex neg a b =>
        do l <- eval_g a sc; do r <- eval_g b sc;
        let str v := match v with
                     | VStr s => Some s
                     | VInt z => Some (int_to_string z)
                     | _ => None
                     end in
        match str l, str r with
        | Some s, Some p =>
            match regex_match p s with
            | Some m => ret (VBool (xorb neg m))
            | None => fail OutOfDomain
            end
        | _, _ => fail OutOfDomain
        end
    | EMath o a b => do l <- eval_g a sc; do r <- eval_g b sc; lift (op_math o l r)
    | ERange a b => do l <- eval_g a sc; do r <- eval_g b sc; lift (op_range l r)
    | EMember src path =>
        let first_optional := match path with Seg o _ :: _ => o | [] => false end in
        fun w =>
          match eval_g src sc w with
          | (Ok m, w1) =>
              (do segs <- (fix go (p : list seg) : M (list value) :=
                             match p with
                             | [] => ret []
                             | Seg _ se :: r => do v <- eval_g se sc; do vs <- go r; ret (v :: vs)
                             end) path;
               match getin fuel' m segs with
               | PVal v => ret v
               | POut o => lift o
               | PErr i =>
                   match nth_error path i with
                   | Some (Seg true _) => ret VNone
                   | _ => fail (Err EPath)
                   end
               end) w1
          | (Err ETerminated, w1) =>
              if first_optional && negb strict then (Ok VNone, w1) else (Err ETerminated, w1)
          | (Err _ as o, w1) => if first_optional then (Ok VNone, w1) else (o, w1)
          | (o, w1) => (o, w1)
          end
    | ECall f args =>
        do _ <- check_ctx;
        do vs <- eval_list args;
        call_fn f vs
    | ESuppress a =>
        fun w => match eval_g a sc w with
                 | (Err ETerminated, w1) => if strict then (Err ETerminated, w1) else (Ok VNone, w1)
                 | (Err _, w1) => (Ok VNone, w1)
                 | r => r
                 end
    | ESub q => eval_for_g fuel' q sc
    end
  end

(* ForExpression.Exec *)
with eval_for_g (fuel : nat) (q : forq) (sc : frames) {struct fuel} : M value :=
  match fuel with
  | O => fail OutOfFuel
  | S fuel' =>
      do _ <- check_ctx;
      let '(d, ret_) :=
        match q with
        | ForIn vv kv src body r => (build_ds (DIn vv kv src) vv body, r)
        | ForWhile vv dof cond body r => (build_ds (DWhile dof vv cond) vv body, r)
        end in
      do it <- iterate_g fuel' d sc;
      let '(distinct, spread, pass) :=
        match ret_ with
        | RReturn dflag e => (dflag, false, match e with ENone => true | _ => false end)
        | RFor _ => (false, true, false)
        end in
      (fix loop (n : nat) (it : iter) (acc : fres) : M value :=
         match n with
         | O => fail OutOfFuel
         | S n' =>
             do r <- next_g fuel' it sc;
             match r with
             | None => ret (VArr (rev (fr_items acc)))
             | Some (sc', it') =>
                 do out <- (match ret_ with
                            | RReturn _ e => do _ <- check_ctx; eval_g fuel' e sc'
                            | RFor q' => eval_for_g fuel' q' sc'
                            end);
                 loop n' it' (fres_push distinct spread pass out acc)
             end
         end) fuel' it {| fr_items := []; fr_seen := [] |}
  end

(* Iterable.Iterate for the chain of clauses *)
with iterate_g (fuel : nat) (d : dsrc) (sc : frames) {struct fuel} : M iter :=
  match fuel with
  | O => fail OutOfFuel
  | S fuel' =>
      match d with
      | DIn vv kv e =>
          do _ <- check_ctx;
          do data <- eval_g fuel' e sc;
          match data with
          | VArr l => if bytes_eqb vv [] then fail (Err EScopeUnnamed) else ret (ItIndexed vv kv l 0)
          | VObj [] => if bytes_eqb vv [] then fail (Err EScopeUnnamed) else ret (ItIndexed vv kv [] 0)
          | VObj _ => fail OutOfDomain       (* Go map iteration order *)
          | _ => fail (Err EType)
          end
      | DWhile dof vv cond =>
          if bytes_eqb vv [] then fail (Err EScopeUnnamed) else ret (ItWhile dof vv cond 0)
      | DBlock d0 ss => do _ <- check_ctx; do it <- iterate_g fuel' d0 sc; ret (ItTap it ss)
      | DFilter d0 e => do it <- iterate_g fuel' d0 sc; ret (ItFilter it e)
      | DSort d0 ks => do it <- iterate_g fuel' d0 sc; ret (ItSort it ks None)
      | DLimit d0 cnt off =>
          do it <- iterate_g fuel' d0 sc;
          do c <- eval_g fuel' cnt sc;
          do o <- eval_g fuel' off sc;
          do ci <- lift (limit_to_int c);
          do oi <- lift (limit_to_int o);
          ret (ItLimit it ci oi 0)
      | DCollect d0 gs t vv =>
          do it <- iterate_g fuel' d0 sc;
          let src := match gs with
                     | [] => it
                     | _ => ItSort it (map (fun g => (snd g, false)) gs) None
                     end in
          ret (ItCollect src gs t vv None)
      end
  end

(* Iterator.Next: None = no more data *)
with next_g (fuel : nat) (it : iter) (sc : frames) {struct fuel} : M (option (frames * iter)) :=
  match fuel with
  | O => fail OutOfFuel
  | S fuel' =>
      (* collections.ToSlice *)
      let drain :=
        (fix drain (n : nat) (it : iter) (acc : list frames) : M (list frames) :=
           match n with
           | O => fail OutOfFuel
           | S n' => do r <- next_g fuel' it (fork sc);
                     match r with
                     | None => ret (rev acc)
                     | Some (s, it') => drain n' it' (s :: acc)
                     end
           end) in
      match it with
      | ItIndexed vv kv vals pos =>
          match vals with
          | [] => ret None
          | v :: rest =>
              do s1 <- set_var vv v (fork sc);
              do s2 <- (match kv with Some k => set_var k (VInt pos) s1 | None => ret s1 end);
              ret (Some (s2, ItIndexed vv kv rest (pos + 1)))
          end
      | ItWhile dof vv cond pos =>
          do go <- (if negb dof || (0 <? pos)
                    then do c <- eval_g fuel' cond sc;
                         ret (match c with VBool true => true | _ => false end)
                    else ret true);
          if go then
            do s1 <- set_var vv (VInt pos) (fork sc);
            ret (Some (s1, ItWhile dof vv cond (pos + 1)))
          else ret None
      | ItTap src ss =>
          do r <- next_g fuel' src sc;
          match r with
          | None => ret None
          | Some (s, src') =>
              (* BlockExpression.Exec in the row's scope *)
              do _ <- check_ctx;
              do s' <- (fix go (ss : list fclause) (s : frames) : M frames :=
                          match ss with
                          | [] => ret s
                          | CLet x e :: r => do v <- eval_g fuel' e s; do s1 <- set_var x v s; go r s1
                          | CCall e :: r => do _ <- eval_g fuel' e s; go r s
                          | _ :: r => go r s
                          end) ss s;
              ret (Some (s', ItTap src' ss))
          end
      | ItFilter src e =>
          (fix loop (n : nat) (src : iter) : M (option (frames * iter)) :=
             match n with
             | O => fail OutOfFuel
             | S n' =>
                 do r <- next_g fuel' src (fork sc);
                 match r with
                 | None => ret None
                 | Some (s, src') =>
                     do v <- eval_g fuel' e s;
                     match v with
                     | VBool true => ret (Some (s, ItFilter src' e))
                     | _ => loop n' src'
                     end
                 end
             end) fuel' src
      | ItLimit src cnt off cur =>
          (* verifyOffset *)
          do st <- (fix skip (n : nat) (src : iter) (cur : Z) : M (option (iter * Z)) :=
                      match n with
                      | O => fail OutOfFuel
                      | S n' =>
                          if (off =? 0) || negb (cur <? off) then ret (Some (src, cur))
                          else do r <- next_g fuel' src (fork sc);
                               match r with
                               | None => ret None
                               | Some (_, src') => skip n' src' (cur + 1)
                               end
                      end) fuel' src cur;
          match st with
          | None => ret None
          | Some (src1, cur1) =>
              let cur2 := cur1 + 1 in
              if cur2 - off <=? cnt then
                do r <- next_g fuel' src1 sc;
                match r with
                | None => ret None
                | Some (s, src2) => ret (Some (s, ItLimit src2 cnt off cur2))
                end
              else ret None
          end
      | ItSort src ks st =>
          do rows <- (match st with
                      | Some rows => ret rows
                      | None =>
                          do scopes <- drain fuel' src [];
                          (* the comparator evaluates the key expressions on demand: with fewer
                             than two rows it is never called; the first key of every row is
                             evaluated at least once (a failure there fails the sort); later keys
                             are only evaluated on ties of the earlier ones, so a failure in a
                             later key is outside the model's domain.  Keys are evaluated once per
                             row here (call counts inside sort keys are not compared). *)
                          match scopes with
                          | [] | [_] => ret scopes
                          | _ =>
                          do keyed <- (fix go (l : list frames) : M (list (list (value * bool) * frames)) :=
                                         match l with
                                         | [] => ret []
                                         | s :: r =>
                                             do kv <- (fix gk (first : bool) (ks : list (expr * bool)) : M (list (value * bool)) :=
                                                         match ks with
                                                         | [] => ret []
                                                         | (e, d) :: kr =>
                                                             do v <- (fun w => match eval_g fuel' e s w with
                                                                               | (Ok v, w') => (Ok v, w')
                                                                               | (OutOfFuel, w') => (OutOfFuel, w')
                                                                               | (o, w') => if first then (o, w') else (OutOfDomain, w')
                                                                               end);
                                                             do vs <- gk false kr; ret ((v, d) :: vs)
                                                         end) true ks;
                                             do rest <- go r;
                                             ret ((kv, s) :: rest)
                                         end) scopes;
                          ret (map snd (sort_by (fun a b => keys_lt (fst a) (fst b)) keyed))
                          end
                      end);
          match rows with
          | [] => ret None
          | s :: r => ret (Some (s, ItSort src ks (Some r)))
          end
      | ItCollect src gs t vv st =>
          do rows <- (match st with
                      | Some rows => ret rows
                      | None =>
                          match gs with
                          | [] =>
                              match t with
                              | CTCount x =>
                                  do scopes <- drain fuel' src [];
                                  do cs <- set_var x (VInt (Z.of_nat (length scopes))) (fork sc);
                                  ret [cs]
                              | CTAggr sels =>
                                  (* rows are pulled one at a time and the aggregate arguments are
                                     evaluated on each before the next row is pulled *)
                                  do colsn <- (fix rows_ (n : nat) (src : iter) (acc : list (list (list value))) (cnt : nat)
                                                 : M (list (list (list value)) * nat) :=
                                                match n with
                                                | O => fail OutOfFuel
                                                | S n' =>
                                                    do r <- next_g fuel' src (fork sc);
                                                    match r with
                                                    | None => ret (acc, cnt)
                                                    | Some (s, src') =>
                                                        do acc' <- (fix sels_ (ss : list (name * name * list expr)) (acc : list (list (list value)))
                                                                      : M (list (list (list value))) :=
                                                                      match ss, acc with
                                                                      | (_, _, args) :: sr, col :: cr =>
                                                                          do col' <- (fix args_ (as_ : list expr) (col : list (list value)) : M (list (list value)) :=
                                                                                        match as_, col with
                                                                                        | a :: ar, c :: cr0 => do v <- eval_g fuel' a s; do rest <- args_ ar cr0; ret ((c ++ [v]) :: rest)
                                                                                        | _, _ => ret []
                                                                                        end) args col;
                                                                          do rest <- sels_ sr cr;
                                                                          ret (col' :: rest)
                                                                      | _, _ => ret []
                                                                      end) sels acc;
                                                        rows_ n' src' acc' (S cnt)
                                                    end
                                                end) fuel' src (map (fun sel => map (fun _ => []) (snd sel)) sels) O;
                                  let '(cols, nrows) := colsn in
                                  (* reducers are called directly: no context check *)
                                  do cs <- (fix red (ss : list (name * name * list expr)) (cols : list (list (list value))) (cs : frames) : M frames :=
                                              match ss, cols with
                                              | (x, f, _) :: sr, col :: cr =>
                                                  let args := match nrows with O => [] | _ => map VArr col end in
                                                  do _ <- (if strict then check_ctx else ret tt);
                                                  do v <- call_fn f args;
                                                  do cs' <- set_var x v cs;
                                                  red sr cr cs'
                                              | _, _ => ret cs
                                              end) sels cols (fork sc);
                                  ret [cs]
                              | _ => fail (Err EOther)
                              end
                          | _ =>
                              (* grouping: rows arrive sorted by the group keys *)
                              do groups <-
                                (fix grp (n : nat) (src : iter) (acc : list (list value * frames)) : M (list (list value * frames)) :=
                                   match n with
                                   | O => fail OutOfFuel
                                   | S n' =>
                                       do r <- next_g fuel' src (fork sc);
                                       match r with
                                       | None => ret acc
                                       | Some (ds, src') =>
                                           do kvs <- (fix gk (gs : list (name * expr)) (cs : frames) : M (list value * frames) :=
                                                        match gs with
                                                        | [] => ret ([], cs)
                                                        | (x, e) :: gr =>
                                                            do v <- eval_g fuel' e ds;
                                                            do cs1 <- set_var x v cs;
                                                            do rest <- gk gr cs1;
                                                            ret (v :: fst rest, snd rest)
                                                        end) gs (fork sc);
                                           let '(k, cs) := kvs in
                                           do accidx <-
                                             (match find_group k acc 0 with
                                              | Some i => ret (acc, i)
                                              | None =>
                                                  do cs' <- (match t with
                                                             | CTInto x _ => set_var x (VArr []) cs
                                                             | CTCount x => set_var x (VInt 0) cs
                                                             | CTAggr sels =>
                                                                 (fix ini (ss : list (name * name * list expr)) (cs : frames) : M frames :=
                                                                    match ss with
                                                                    | [] => ret cs
                                                                    | (x, _, args) :: sr =>
                                                                        do cs1 <- set_var x (VArr (map (fun _ => VArr []) args)) cs;
                                                                        ini sr cs1
                                                                    end) sels cs
                                                             | CTNone => ret cs
                                                             end);
                                                  ret (acc ++ [(k, cs')], length acc)
                                              end);
                                           let '(acc1, idx) := accidx in
                                           do acc2 <-
                                             (match t with
                                              | CTInto x proj =>
                                                  do v <- (match proj with
                                                           | Some pe => eval_g fuel' pe ds
                                                           | None => do cur <- get_var vv ds; ret (VObj [(vv, cur)])
                                                           end);
                                                  ret (update_nth idx (fun g => (fst g, frame0_update x (arr_push v) (snd g))) acc1)
                                              | CTCount x =>
                                                  ret (update_nth idx (fun g => (fst g, frame0_update x
                                                         (fun c => match c with VInt z => VInt (z + 1) | o => o end) (snd g))) acc1)
                                              | CTAggr sels =>
                                                  (fix ag (ss : list (name * name * list expr)) (acc : list (list value * frames)) : M (list (list value * frames)) :=
                                                     match ss with
                                                     | [] => ret acc
                                                     | (x, _, args) :: sr =>
                                                         do vals <- (fix ev (as_ : list expr) : M (list value) :=
                                                                       match as_ with
                                                                       | [] => ret []
                                                                       | a :: ar => do v <- eval_g fuel' a ds; do vs <- ev ar; ret (v :: vs)
                                                                       end) args;
                                                         ag sr (update_nth idx (fun g => (fst g, frame0_update x
                                                                 (fun m => match m with
                                                                           | VArr cols => VArr (map (fun p => arr_push (snd p) (fst p)) (combine cols vals))
                                                                           | o => o
                                                                           end) (snd g))) acc)
                                                     end) sels acc1
                                              | CTNone => ret acc1
                                              end);
                                           grp n' src' acc2
                                       end
                                   end) fuel' src [];
                              (* aggregate reducers run after all rows were seen, directly *)
                              match t with
                              | CTAggr sels =>
                                  (fix fin (gl : list (list value * frames)) : M (list frames) :=
                                     match gl with
                                     | [] => ret []
                                     | (_, cs) :: gr =>
                                         do cs' <- (fix red (ss : list (name * name * list expr)) (cs : frames) : M frames :=
                                                      match ss with
                                                      | [] => ret cs
                                                      | (x, f, _) :: sr =>
                                                          do m <- get_var x cs;
                                                          do _ <- (if strict then check_ctx else ret tt);
                                                          do v <- call_fn f (match m with VArr cols => cols | _ => [] end);
                                                          red sr (frame0_update x (fun _ => v) cs)
                                                      end) sels cs;
                                         do rest <- fin gr;
                                         ret (cs' :: rest)
                                     end) groups
                              | _ => ret (map snd groups)
                              end
                          end
                      end);
          match rows with
          | [] => ret None
          | s :: r => ret (Some (s, ItCollect src gs t vv (Some r)))
          end
      end
  end.

End Eval.

Notation eval := (eval_g true).
Notation eval_for := (eval_for_g true).
Notation iterate := (iterate_g true).
Notation next := (next_g true).

(* BodyExpression.Exec on the root scope *)
Definition run_body_g (strict : bool) (fuel : nat) (p : program) : M value :=
  do _ <- check_ctx;
  do sc <- (fix go (ss : list stmt) (sc : frames) : M frames :=
              match ss with
              | [] => ret sc
              | SLet x e :: r => do v <- eval_g strict fuel e sc; do sc' <- set_var x v sc; go r sc'
              | SCall e :: r => do _ <- eval_g strict fuel e sc; go r sc
              end) (p_stmts p) [[]];
  match p_ret p with
  | BReturn e => do _ <- check_ctx; eval_g strict fuel e sc
  | BFor q => eval_for_g strict fuel q sc
  end.
Notation run_body := (run_body_g true).

Definition init_world (params : list (name * value)) (precancel : bool) (cancel_at : option N) : world :=
  {| w_trace := []; w_cancelled := precancel; w_cancel_at := cancel_at; w_ncalls := 0;
     w_closers := []; w_params := params; w_fail_at := None |}.
Definition with_fail_at (w : world) (k kind : N) : world :=
  {| w_trace := w_trace w; w_cancelled := w_cancelled w; w_cancel_at := w_cancel_at w;
     w_ncalls := w_ncalls w; w_closers := w_closers w; w_params := w_params w;
     w_fail_at := Some (k, kind) |}.
