(* Check/C17.v — correspondence check for C17.  The harness sends the cases
   and, per case, whether the property's predicate held ON THE IMPLEMENTATION
   (did the round trip return the original? was the second application equal
   to the first?).  [mismatches] lists every case on which the predicate
   failed, tagged with the model's own prediction for that case:

     kind k        the model's round trip holds on this input (inside the
                   guard of the theorems) but the implementation's did not
     kind 100 + k  the model, which mirrors the pinned code, predicts the
                   failure (outside the guard: a genuine defect of the code)

   k: 1 base64, 2 URI component, 3 HTML, 4 SPLIT/CONCAT_SEPARATOR, 5 UPPER,
      6 LOWER, 7 TRIM/LTRIM/RTRIM, 8 JSON stringify/parse (no model: always
      expected to hold), 9 DATE_ADD/DATE_SUBTRACT, 10 DATE_DIFF, 11 RFC 3339;
      99 malformed case data.
   DATE_DIFF: a predicted failure (110: the code returns the absolute value, so
   a negative amount does not come back) is granted only when the
   implementation returned exactly that absolute value; any other result is
   listed as (10, i, 1) - neither the amount nor the recorded behaviour.
   A case on which the implementation's predicate holds is never listed,
   whatever the model predicts (a repaired defect is not an alarm).

   [drift] compares the implementation's intermediate results (encoded texts,
   DATE_ADD results, renderings) byte for byte with the model's; it is printed
   as a diagnostic and is not part of the verdict. *)
From Ferret Require Import Codec.Base64 Codec.Uri Codec.Html Codec.SplitJoin Codec.Trim
  Codec.Case Date Generated.GenUnicodeCase.
From Ferret Require Export Check.Common.
Open Scope N_scope.

Definition triple := (N * N * N)%type.

Definition opt_bytes_eqb (o : option bytes) (s : bytes) : bool :=
  match o with Some t => bytes_eqb t s | None => false end.

(* ---- the model's predicate for each pair *)
Definition m_b64 (s : bytes) : bool := opt_bytes_eqb (b64_decode (b64_encode s)) s.
Definition m_uri (s : bytes) : bool := opt_bytes_eqb (fql_decode_uri (query_escape s)) s.
Definition m_html (s : bytes) : bool := bytes_eqb (html_unescape (html_escape s)) s.
Definition m_split (s sep : bytes) : bool :=
  match str_split sep s with Some l => bytes_eqb (str_join sep l) s | None => false end.
Definition m_upper (s : bytes) : bool :=
  let a := go_to_upper upper_table s in bytes_eqb (go_to_upper upper_table a) a.
Definition m_lower (s : bytes) : bool :=
  let a := go_to_lower lower_table s in bytes_eqb (go_to_lower lower_table a) a.
(* fn: 0 TRIM, 1 LTRIM, 2 RTRIM *)
Definition m_trim_fn (fn : N) (s : bytes) (c : option bytes) : bytes :=
  if fn =? 0 then fql_trim s c else if fn =? 1 then fql_ltrim s c else fql_rtrim s c.
Definition m_trim (fn : N) (s : bytes) (c : option bytes) : bool :=
  let a := m_trim_fn fn s c in bytes_eqb (m_trim_fn fn a c) a.

Definition bit (n k : N) : bool := N.testbit n k.

(* ---- single-argument pairs: one character per string, 48 + bits
   (bit 0 base64, 1 uri, 2 html, 3 upper, 4 lower) *)
Definition single_row (s : bytes) (o i : N) : list triple :=
  let t (k : N) (b : N) (m : bool) : list triple :=
    if bit o b then [] else [((if m then k else 100 + k), i, 0)] in
  t 1 0 (m_b64 s) ++ t 2 1 (m_uri s) ++ t 3 2 (m_html s) ++ t 5 3 (m_upper s) ++ t 6 4 (m_lower s).

Fixpoint singles (S : list bytes) (O : list N) (i : N) : list triple :=
  match S, O with
  | s :: S', o :: O' => single_row s o i ++ singles S' O' (i + 1)
  | [], [] => []
  | _, _ => [(99, i, 0)]
  end.

(* ---- SPLIT / CONCAT_SEPARATOR: a row per string, a character ('1' held /
   '0' failed) per separator *)
Fixpoint split_row (s : bytes) (seps : list bytes) (o : list N) (i j : N) : list triple :=
  match seps, o with
  | sep :: seps', b :: o' =>
      let rest := split_row s seps' o' i (j + 1) in
      if b =? 1 then rest else ((if m_split s sep then 4 else 104), i, j) :: rest
  | [], _ => []
  | _, [] => [(99, i, j)]
  end.
Fixpoint splits (S : list bytes) (seps : list bytes) (O : list string) (i : N) : list triple :=
  match S, O with
  | s :: S', o :: O' => split_row s seps (unpack1 o) i 0 ++ splits S' seps O' (i + 1)
  | _, [] => []                         (* rows may cover only a prefix of S *)
  | [], _ :: _ => [(99, i, 1)]
  end.

(* ---- TRIM: a row per string, a character per cutset, 48 + bits
   (bit 0 TRIM, 1 LTRIM, 2 RTRIM); j = 3 * cutset index + function *)
Fixpoint trim_row (s : bytes) (cuts : list (option bytes)) (o : list N) (i j : N) : list triple :=
  match cuts, o with
  | c :: cuts', b :: o' =>
      let t (fn : N) : list triple :=
        if bit b fn then [] else [((if m_trim fn s c then 7 else 107), i, 3 * j + fn)] in
      t 0 ++ t 1 ++ t 2 ++ trim_row s cuts' o' i (j + 1)
  | [], _ => []
  | _, [] => [(99, i, j)]
  end.
Fixpoint trims (S : list bytes) (cuts : list (option bytes)) (O : list string) (i : N) : list triple :=
  match S, O with
  | s :: S', o :: O' => trim_row s cuts (unpack1 o) i 0 ++ trims S' cuts O' (i + 1)
  | _, [] => []
  | [], _ :: _ => [(99, i, 2)]
  end.

(* ---- JSON stringify / parse: no model, the predicate must hold on every
   JSON-domain value the harness generated *)
Fixpoint jsons (O : list N) (i : N) : list triple :=
  match O with
  | [] => []
  | b :: O' => (if b =? 1 then [] else [(8, i, 0)]) ++ jsons O' (i + 1)
  end.

(* ---- dates.  A case: (sec, nsec, amount, unit code 0..5); observation
   48 + bits (bit 0 add/subtract returned the instant, bit 1 DATE_DIFF = amount,
   bit 2 DATE_DIFF = amount or - amount) *)
Definition unit_of (c : N) : dunit :=
  match c with 0 => UMs | 1 => USec | 2 => UMin | 3 => UHour | 4 => UDay | _ => UWeek end.

Definition m_addsub (t : instant) (n : Z) (u : dunit) : bool :=
  inst_eqb (date_sub (date_add t n u) n u) t.
Definition m_diff (t : instant) (n : Z) (u : dunit) : bool :=
  (date_diff t (date_add t n u) u =? n)%Z.
Definition m_diff_abs (t : instant) (n : Z) (u : dunit) : bool :=
  (date_diff t (date_add t n u) u =? Z.abs n)%Z.

Fixpoint dates (D : list (Z * Z * Z * N)) (O : list N) (i : N) : list triple :=
  match D, O with
  | (sec, nsec, n, uc) :: D', o :: O' =>
      let t := (sec, nsec) in let u := unit_of uc in
      (if bit o 0 then [] else [((if m_addsub t n u then 9 else 109), i, 0)]) ++
      (if bit o 1 then []
       else if m_diff t n u then [(10, i, 0)]
       else if bit o 2 && m_diff_abs t n u then [(110, i, 0)]
       else [(10, i, 1)]) ++
      dates D' O' (i + 1)
  | [], [] => []
  | _, _ => [(99, i, 3)]
  end.

(* ---- RFC 3339.  A case: (sec, nsec, zone offset in minutes); observation
   48 + bits (bit 0: the JSON rendering parsed by DATE() is the same instant;
   bit 1: DATE_FORMAT with the nanosecond RFC 3339 layout, likewise) *)
Definition m_rfc (t : instant) (off : Z) : bool :=
  rfc3339_guard t off &&
  match rfc3339_print t off with
  | Some s => match rfc3339_parse s with
              | Some (t', _) => inst_eqb t' t
              | None => false
              end
  | None => false
  end.

Fixpoint rfcs (R : list (Z * Z * Z)) (O : list N) (i : N) : list triple :=
  match R, O with
  | (sec, nsec, off) :: R', o :: O' =>
      let m := m_rfc (sec, nsec) off in
      (if bit o 0 then [] else [((if m then 11 else 111), i, 0)]) ++
      (if bit o 1 then [] else [((if m then 11 else 111), i, 1)]) ++
      rfcs R' O' (i + 1)
  | [], [] => []
  | _, _ => [(99, i, 4)]
  end.

Definition mismatches (S : list bytes) (OS : string)
                      (SEPS : list bytes) (OSP : list string)
                      (CUTS : list (option bytes)) (OTR : list string)
                      (OJ : string)
                      (D : list (Z * Z * Z * N)) (OD : string)
                      (R : list (Z * Z * Z)) (OR : string) : list triple :=
  singles S (unpack1 OS) 0 ++ splits S SEPS OSP 0 ++ trims S CUTS OTR 0
  ++ jsons (unpack1 OJ) 0 ++ dates D (unpack1 OD) 0 ++ rfcs R (unpack1 OR) 0.

(* ---- drift diagnostic: implementation's intermediate results vs the model's.
   E: per string (a prefix of S) the implementation's TO_BASE64,
   ENCODE_URI_COMPONENT, ESCAPE_HTML, UPPER, LOWER outputs; A: per date case
   the DATE_ADD result; P: per RFC case the JSON rendering. *)
Fixpoint drift_enc (S : list bytes) (E : list (bytes * bytes * bytes * bytes * bytes)) (i : N)
  : list triple :=
  match S, E with
  | s :: S', (e1, e2, e3, e4, e5) :: E' =>
      (if bytes_eqb e1 (b64_encode s) then [] else [(1, i, 0)]) ++
      (if bytes_eqb e2 (query_escape s) then [] else [(2, i, 0)]) ++
      (if bytes_eqb e3 (html_escape s) then [] else [(3, i, 0)]) ++
      (if bytes_eqb e4 (go_to_upper upper_table s) then [] else [(5, i, 0)]) ++
      (if bytes_eqb e5 (go_to_lower lower_table s) then [] else [(6, i, 0)]) ++
      drift_enc S' E' (i + 1)
  | _, _ => []
  end.
Fixpoint drift_add (D : list (Z * Z * Z * N)) (A : list (Z * Z)) (i : N) : list triple :=
  match D, A with
  | (sec, nsec, n, uc) :: D', a :: A' =>
      (if inst_eqb (date_add (sec, nsec) n (unit_of uc)) a then [] else [(9, i, 0)])
      ++ drift_add D' A' (i + 1)
  | _, _ => []
  end.
Fixpoint drift_rfc (R : list (Z * Z * Z)) (P : list bytes) (i : N) : list triple :=
  match R, P with
  | (sec, nsec, off) :: R', p :: P' =>
      (if opt_bytes_eqb (rfc3339_print (sec, nsec) off) p then [] else [(11, i, 0)])
      ++ drift_rfc R' P' (i + 1)
  | _, _ => []
  end.
Definition drift S E D A R P : list triple :=
  drift_enc S E 0 ++ drift_add D A 0 ++ drift_rfc R P 0.
