(* Check/C07.v — correspondence check for C07: the harness supplies a universe
   U, the sign matrix R observed from Value.Compare, the packed operator
   observations O, and sort/search observations; [mismatches] lists every
   place where the implementation differs from the model. *)
From Ferret Require Import Compare.
From Ferret Require Export Check.Common.

(* kind 0: Compare sign of (U[i], U[j]); digits 0 '<', 1 '=', 2 '>', 3 panic *)
Fixpoint row_sign (a : value) (us : list value) (r : list N) (i j : N) : list (N * N * N) :=
  match us, r with
  | b :: us', c :: r' =>
      let rest := row_sign a us' r' i (j + 1)%N in
      if (c =? sign_code (vcompare a b))%N then rest else (0%N, i, j) :: rest
  | [], _ => []
  | _, [] => [(9%N, i, j)]            (* malformed row *)
  end.

Fixpoint rows_sign (U us : list value) (R : list string) (i : N) : list (N * N * N) :=
  match us, R with
  | a :: us', r :: R' => row_sign a U (unpack3 r) i 0%N ++ rows_sign U us' R' (i + 1)%N
  | [], [] => []
  | _, _ => [(9%N, i, 0%N)]
  end.

(* kind 1: twelve operator / search results for the pair.  The harness sends a
   code book OB of the distinct 12-bit patterns it observed and, per pair, the
   index of the pattern. *)
Definition ops_model (a b : value) : list bool :=
  let c := vcompare a b in
  [c =? 0; negb (c =? 0); c <? 0; c <=? 0; c >? 0; c >=? 0;
   contains [b] a; negb (contains [b] a); position [b] a >=? 0;
   contains [b] a; c =? 0; c <? 0].

Fixpoint bools_eqb (a b : list bool) : bool :=
  match a, b with
  | [], [] => true
  | x :: a', y :: b' => Bool.eqb x y && bools_eqb a' b'
  | _, _ => false
  end.

Fixpoint row_ops (OB : list (list bool)) (a : value) (us : list value) (r : list N) (i j : N)
  : list (N * N * N) :=
  match us, r with
  | b :: us', c :: r' =>
      let rest := row_ops OB a us' r' i (j + 1)%N in
      if bools_eqb (nth (N.to_nat c) OB []) (ops_model a b) then rest else (1%N, i, j) :: rest
  | [], _ => []
  | _, [] => [(9%N, i, j)]
  end.

Fixpoint rows_ops OB (U us : list value) (O : list string) (i : N) : list (N * N * N) :=
  match us, O with
  | a :: us', r :: O' => row_ops OB a U (unpack1 r) i 0%N ++ rows_ops OB U us' O' (i + 1)%N
  | _, [] => []                       (* ops may cover only a prefix of U *)
  | [], _ :: _ => [(9%N, i, 1%N)]
  end.

(* kind 2: SORT / SORTED output is sorted by compare and is a permutation of
   the input (as a multiset of structurally identical values).
   kind 3: POSITION(arr, x, true) = first index comparing equal, or -1 *)
Fixpoint remove_first (x : value) (l : list value) : option (list value) :=
  match l with
  | [] => None
  | y :: r => if struct_eqb x y then Some r
              else match remove_first x r with Some r' => Some (y :: r') | None => None end
  end.
Fixpoint perm_eqb (a b : list value) : bool :=
  match a with
  | [] => match b with [] => true | _ => false end
  | x :: r => match remove_first x b with Some b' => perm_eqb r b' | None => false end
  end.

Definition sort_ok (input out : list value) : bool := sortedb out && perm_eqb input out.

Fixpoint sorts_mism (S : list (list value * list value * list value)) (i : N) : list (N * N * N) :=
  match S with
  | [] => []
  | (inp, o1, o2) :: r =>
      (if sort_ok inp o1 then [] else [(2%N, i, 0%N)]) ++
      (if sort_ok inp o2 then [] else [(2%N, i, 1%N)]) ++ sorts_mism r (i + 1)%N
  end.

Fixpoint pos_mism (P : list (list value * value * Z)) (i : N) : list (N * N * N) :=
  match P with
  | [] => []
  | (l, x, p) :: r => (if position l x =? p then [] else [(3%N, i, 0%N)]) ++ pos_mism r (i + 1)%N
  end.

Definition mismatches U R OB O S P : list (N * N * N) :=
  rows_sign U U R 0%N ++ rows_ops OB U U O 0%N ++ sorts_mism S 0%N ++ pos_mism P 0%N.
