(* Check/C03.v — correspondence check for C03.  Per generated program the
   harness sends the implementation's observation (compiled? if so, did the
   run end in a scope-related error?); the model decides well-scopedness with
   the SPECIFIED resolution [chk_program true] and runs the reference evaluator.
   kinds: 0 well-scoped program rejected, 1 compiled program failed at run time
   with a scope error, 2 ill-scoped program accepted, 5 the model itself is not
   sound on this program (accepted, yet the reference evaluator reports a scope
   error), 100/101 outside the evaluator's domain / fuel (run part skipped). *)
From Ferret Require Import Eval StaticScope.
From Ferret Require Export Check.Common.

Inductive cobs := CAcceptRunOk | CAcceptRunScopeErr | CRejectScope | CRejectOther.

Definition is_scope_err {A} (o : outcome A) : bool :=
  match o with
  | Err EScopeNotFound | Err EScopeNotUnique | Err EScopeUnnamed => true
  | _ => false
  end.

Definition check_case (i : N) (c : program * list (name * value) * cobs) : list (N * N * N) :=
  let '(p, params, o) := c in
  match chk_program true true 400 p with
  | COk =>
      let r := fst (run_body 400 p (init_world params false None)) in
      (if is_scope_err r then [(5%N, i, 0%N)] else []) ++
      match o with
      | CAcceptRunOk => []
      | CAcceptRunScopeErr => [(1%N, i, 0%N)]
      | CRejectScope | CRejectOther => [(0%N, i, 0%N)]
      end
  | _ =>
      match o with
      | CAcceptRunOk | CAcceptRunScopeErr => [(2%N, i, 0%N)]
      | _ => []
      end
  end.
Fixpoint mism_from (i : N) cs : list (N * N * N) :=
  match cs with
  | [] => []
  | c :: r => check_case i c ++ mism_from (i + 1)%N r
  end.
Definition mismatches cs := mism_from 0%N cs.

(* ---- WAITFOR EVENT: which names each operand may mention (WaitforScope.v).
   One case = (names declared in the enclosing scope, names mentioned by each
   operand, did Compile accept).  kinds: 20 well-scoped WAITFOR rejected,
   21 ill-scoped WAITFOR accepted. *)
From Ferret Require Import WaitforScope.
Definition wcheck_case (i : N) (c : list bytes * wf_refs * bool) : list (N * N * N) :=
  let '(vis, w, accepted) := c in
  match chk_waitfor vis w, accepted with
  | true, false => [(20%N, i, 0%N)]
  | false, true => [(21%N, i, 0%N)]
  | _, _ => []
  end.
Fixpoint wmism_from (i : N) cs : list (N * N * N) :=
  match cs with
  | [] => []
  | c :: r => wcheck_case i c ++ wmism_from (i + 1)%N r
  end.
Definition wmismatches cs := wmism_from 0%N cs.
