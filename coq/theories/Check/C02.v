(* Check/C02.v — correspondence check for C02: every generated program is run
   by the implementation (observation sent by the harness) and by the reference
   evaluator; [mismatches] lists the programs on which they differ.
   kinds: 0 value differs, 1 call trace differs, 2 outcome class differs,
   100 outside the model's domain (skipped), 101 out of fuel (skipped). *)
From Ferret Require Import Eval.
From Ferret Require Export Check.Common.

Inductive obs :=
| OVal (v : value) (tr : list (name * list value))
| OErr (tr : list (name * list value))
| OCompileErr
| ONilNil
| OEscaped.

Definition call_events (w : world) : list (name * list value) :=
  rev (fold_right (fun e acc => match e with EvCall f a => (f, a) :: acc | _ => acc end) [] (w_trace w)).

Fixpoint values_agree (a b : list value) : bool :=
  match a, b with
  | [], [] => true
  | x :: a', y :: b' => (vcompare x y =? 0) && values_agree a' b'
  | _, _ => false
  end.
Fixpoint trace_agree (a b : list (name * list value)) : bool :=
  match a, b with
  | [], [] => true
  | (f, x) :: a', (g, y) :: b' => bytes_eqb f g && values_agree x y && trace_agree a' b'
  | _, _ => false
  end.

Definition check_fuel : nat := 400.

Definition check_case (i : N) (c : program * list (name * value) * obs) : list (N * N * N) :=
  let '(p, params, o) := c in
  let '(r, w) := run_body check_fuel p (init_world params false None) in
  let tr := rev (call_events w) in
  match r with
  | OutOfDomain => [(100%N, i, 0%N)]
  | OutOfFuel => [(101%N, i, 0%N)]
  | Ok v =>
      match o with
      | OVal v' tr' =>
          (if vcompare v v' =? 0 then [] else [(0%N, i, 0%N)]) ++
          (if trace_agree (rev tr) tr' then [] else [(1%N, i, 0%N)])
      | _ => [(2%N, i, 0%N)]
      end
  | _ =>
      match o with
      | OErr tr' => if trace_agree (rev tr) tr' then [] else [(1%N, i, 1%N)]
      | _ => [(2%N, i, 1%N)]
      end
  end.

Fixpoint mism_from (i : N) (cs : list (program * list (name * value) * obs)) : list (N * N * N) :=
  match cs with
  | [] => []
  | c :: r => check_case i c ++ mism_from (i + 1)%N r
  end.
Definition mismatches cs := mism_from 0%N cs.
