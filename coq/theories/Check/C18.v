(* Check/C18.v — correspondence check for C18.  The harness sends, per
   generated document, the tree (in Dom.v syntax) and, per (context, selector)
   case, the observations the implementation produced for a fixed list of
   queries; [mismatches] recomputes every observation from the model. *)
From Ferret Require Import Dom.
From Ferret Require Export Check.Common.

Inductive oval :=
| ONone                     (* FQL none / absent member *)
| ONotFound                 (* "not found" reported (error of that class, or none) *)
| OErr                      (* any other error *)
| OCrash                    (* the worker process died or hung *)
| OB (b : bool)
| OI (z : Z)
| OS (s : bytes)
| OL (l : list oval)
| OF (f : list node).       (* markup, re-parsed by the harness into a forest *)

Fixpoint pairs_eqb (a b : list (bytes * bytes)) : bool :=
  match a, b with
  | [], [] => true
  | (k, v) :: a', (k', v') :: b' => bytes_eqb k k' && bytes_eqb v v' && pairs_eqb a' b'
  | _, _ => false
  end.
Definition hdr_eqb (a b : hdr) : bool :=
  bytes_eqb (h_tag a) (h_tag b) && pairs_eqb (h_attrs a) (h_attrs b) && pairs_eqb (h_style a) (h_style b).

Fixpoint node_eqb (a b : node) {struct a} : bool :=
  match a, b with
  | T s, T s' => bytes_eqb s s'
  | E h k, E h' k' =>
      hdr_eqb h h' &&
      (fix go (x y : list node) {struct x} : bool :=
         match x, y with
         | [], [] => true
         | n :: x', m :: y' => node_eqb n m && go x' y'
         | _, _ => false
         end) k k'
  | _, _ => false
  end.
Fixpoint forest_eqb (x y : list node) : bool :=
  match x, y with
  | [], [] => true
  | n :: x', m :: y' => node_eqb n m && forest_eqb x' y'
  | _, _ => false
  end.

Fixpoint oval_eqb (a b : oval) {struct a} : bool :=
  match a, b with
  | ONone, ONone | ONotFound, ONotFound | OErr, OErr | OCrash, OCrash => true
  | OB x, OB y => Bool.eqb x y
  | OI x, OI y => x =? y
  | OS x, OS y => bytes_eqb x y
  | OF x, OF y => forest_eqb x y
  | OL x, OL y =>
      (fix go (x y : list oval) {struct x} : bool :=
         match x, y with
         | [], [] => true
         | n :: x', m :: y' => oval_eqb n m && go x' y'
         | _, _ => false
         end) x y
  | _, _ => false
  end.

Definition opt_os (o : option bytes) : oval := match o with Some v => OS v | None => ONone end.
Definition data_n : bytes := bs "data-n".
Definition id_of (d : loc) : oval := opt_os (get_attr (l_h d) data_n).
Definition opt_id (o : option loc) : oval := match o with Some d => id_of d | None => ONone end.
Definition on_first_o (l : list loc) (f : loc -> oval) : oval :=
  match l with m :: _ => f m | [] => ONotFound end.

Definition leb_bytes (a b : bytes) : bool := match lexcmp a b with Gt => false | _ => true end.
Definition sorted_keys (h : hdr) : oval := OL (map OS (isort leb_bytes (map fst (all_attrs h)))).

Definition attrs_obs (AN : list bytes) (h : hdr) : oval := OL (map (fun n => opt_os (get_attr h n)) AN).
Definition styles_obs (SN : list bytes) (h : hdr) : oval := OL (map (fun n => opt_os (get_style h n)) SN).
Definition nav_obs (d : loc) : oval :=
  OL [opt_id (parent d); opt_id (next_sibling d); opt_id (prev_sibling d);
      OI (Z.of_nat (List.length (children d)));
      opt_id (hd_error (children d)); OS (h_tag (l_h d))].

Definition arg_s (args : list oval) (i : nat) : bytes :=
  match nth i args ONone with OS s => s | _ => [] end.
Definition arg_f (args : list oval) (i : nat) : list node :=
  match nth i args ONone with OF f => f | _ => [] end.

(* the model's answer to query q on context c (in document root), selector s *)
Definition expect_x (AN SN : list bytes) (c : loc) (s : sel) (X : list loc) (q : N) (args : list oval) : oval :=
  let M := select_all c s in
  match q with
  (* CSS *)
  | 1 => OI (count c s)
  | 2 => OB (exists_ c s)
  | 3 => OL (map id_of M)
  | 4 => OL (map OS (inner_text_all c s))
  | 5 => OL (map (fun d => OS (inner_text d)) M)
  | 6 => on_first_o M (fun d => OS (inner_text d))
  | 7 => match inner_text_sel c s with Ok t => OS t | NotFound => ONotFound | Crash => OCrash end
  | 8 => OL (map OF (inner_html_all c s))
  | 9 => OL (map (fun d => OF (inner_html d)) M)
  | 10 => on_first_o M (fun d => OF (inner_html d))
  | 11 => match inner_html_sel c s with Ok t => OF t | NotFound => ONotFound | Crash => OCrash end
  | 12 => OI (count_of M)
  | 13 => on_first_o M id_of
  (* XPath translation *)
  | 21 => OI (count_of X)
  | 22 => OB (exists_of X)
  | 23 => OL (map id_of X)
  | 24 => OL (map (fun d => OS (inner_text d)) X)
  | 26 => on_first_o X (fun d => OS (inner_text d))
  | 27 => on_first_o X (fun d => OS (inner_text d))
  | 28 => OL (map (fun d => OF (inner_html d)) X)
  | 30 => on_first_o X (fun d => OF (inner_html d))
  | 31 => on_first_o X (fun d => OF (inner_html d))
  | 33 => on_first_o X id_of
  | 34 => OL (map id_of X)
  | 35 => OI (count_of X)
  (* attributes, styles, navigation of every match and of the single match *)
  | 40 => OL (map (fun d => attrs_obs AN (l_h d)) M)
  | 41 => OL (map (fun d => attrs_obs AN (l_h d)) M)
  | 42 => OL (map (fun d => sorted_keys (l_h d)) M)
  | 43 => OL (map (fun d => styles_obs SN (l_h d)) M)
  | 44 => OL (map (fun d => styles_obs SN (l_h d)) M)
  | 45 => OL (map nav_obs M)
  | 46 => on_first_o M (fun d => attrs_obs AN (l_h d))
  | 47 => on_first_o M (fun d => styles_obs SN (l_h d))
  | 48 => on_first_o M nav_obs
  (* the context itself *)
  | 50 => OS (inner_text c)
  | 51 => OF (inner_html c)
  | 52 => OI (Z.of_nat (List.length (children c)))
  (* writes through the single match, read back through the same value, a
     fresh single match, and every match; c is the document *)
  | 60 => on_first_o M (fun m =>
            let k := arg_s args 0 in
            let m' := set_hdr m (set_attr (l_h m) k (arg_s args 1)) in
            let M' := select_all (reroot m') s in
            OL [attrs_obs (k :: AN) (l_h m'); OL (map (fun d => opt_os (get_attr (l_h d) k)) M');
                on_first_o M' (fun d => attrs_obs (k :: AN) (l_h d))])
  | 61 => on_first_o M (fun m =>
            let k := arg_s args 0 in
            let m' := set_hdr m (set_style (l_h m) k (arg_s args 1)) in
            let M' := select_all (reroot m') s in
            OL [styles_obs (k :: SN) (l_h m'); OL (map (fun d => opt_os (get_style (l_h d) k)) M');
                on_first_o M' (fun d => styles_obs (k :: SN) (l_h d))])
  | 62 => on_first_o M (fun m =>
            let m' := set_text m (arg_s args 0) in
            let r' := reroot m' in
            let M' := select_all r' s in
            OL [OS (inner_text m'); OS (inner_text r'); OL (map (fun d => OS (inner_text d)) M'); OI (count_of M');
                OF (inner_html m'); on_first_o M' (fun d => OI (Z.of_nat (List.length (children d))));
                on_first_o M' (fun d => OS (inner_text d))])
  | 63 => on_first_o M (fun m =>
            let m' := set_html m (arg_f args 0) in
            let r' := reroot m' in
            let M' := select_all r' s in
            OL [OF (inner_html m'); OS (inner_text r'); OL (map id_of M')])
  | _ => OErr
  end%N.

Definition expect AN SN c s := expect_x AN SN c s (xselect c (to_xpath s)).
(* the recorded behaviour of the XPath engine: matches below nested matches of an
   earlier step are delivered once per such ancestor *)
Definition expect_dups AN SN c s := expect_x AN SN c s (xselect_dups c (to_xpath s)).
Definition is_xq (q : N) : bool := ((20 <? q) && (q <? 40))%N.

(* the context: the document, or the element carrying data-n = cid *)
Definition find_ctx (root : node) (cid : option bytes) : option loc :=
  match cid with
  | None => Some (to_loc root)
  | Some i => find (fun d => match get_attr (l_h d) data_n with Some v => bytes_eqb v i | None => false end)
                   (locs_of root [])
  end.

Definition obs_entry := (list N * list oval * oval)%type.           (* queries sharing (args, observation) *)
Definition dcase := (option bytes * sel * list obs_entry)%type.

Fixpoint entry_mism AN SN c s (qs : list N) args (v : oval) (i j : N) : list (N * N * N) :=
  match qs with
  | [] => []
  | q :: r => (if oval_eqb v (expect AN SN c s q args) then []
               else if is_xq q && oval_eqb v (expect_dups AN SN c s q args) then [(q + 100, i, j)%N]
               else [(q, i, j)]) ++ entry_mism AN SN c s r args v i j
  end.

Definition case_mism AN SN (root : node) (cs : dcase) (i j : N) : list (N * N * N) :=
  match cs with
  | (cid, s, es) =>
      match find_ctx root cid with
      | None => [(999%N, i, j)]
      | Some c => flat_map (fun e => match e with (qs, args, v) => entry_mism AN SN c s qs args v i j end) es
      end
  end.

Fixpoint cases_mism AN SN root (cs : list dcase) (i j : N) : list (N * N * N) :=
  match cs with
  | [] => []
  | c :: r => case_mism AN SN root c i j ++ cases_mism AN SN root r i (j + 1)%N
  end.

Fixpoint docs_mism AN SN (ds : list (node * list dcase)) (i : N) : list (N * N * N) :=
  match ds with
  | [] => []
  | (root, cs) :: r => cases_mism AN SN root cs i 0%N ++ docs_mism AN SN r (i + 1)%N
  end.

(* base = index of the first document of this file *)
Definition mismatches (AN SN : list bytes) (base : N) (ds : list (node * list dcase)) : list (N * N * N) :=
  docs_mism AN SN ds base.

(* ---------- histories of reads and writes through one element wrapper (kind 70) *)
Definition leb_kv (a b : bytes * bytes) : bool := leb_bytes (fst a) (fst b).
Definition leb_ka (a b : bytes * aval) : bool := leb_bytes (fst a) (fst b).
Definition pairs_oval (d : decls) : oval := OL (map (fun kv => OL [OS (fst kv); OS (snd kv)]) (isort leb_kv d)).
Definition aval_oval (a : aval) : oval := match a with AV v => OS v | AS d => pairs_oval d end.
Definition rd_oval (r : rd) : oval :=
  match r with
  | RdOpt l => OL (map opt_os l)
  | RdDecls d => pairs_oval d
  | RdA l => OL (map (fun o => match o with Some a => aval_oval a | None => ONone end) l)
  | RdAll l => OL (map (fun kv => OL [OS (fst kv); aval_oval (snd kv)]) (isort leb_ka l))
  end.

(* index of the first position where two observation lists differ *)
Fixpoint first_diff (a b : list oval) (k : N) : option N :=
  match a, b with
  | [], [] => None
  | x :: a', y :: b' => if oval_eqb x y then first_diff a' b' (k + 1)%N else Some k
  | _, _ => Some k
  end.

(* document (index within the file), number of the history within the document,
   selector (the wrapper is ELEMENT(d, s)), operations, observed reads *)
Definition hcase := (N * N * sel * list hop * list oval)%type.

Definition hist_mism (ds : list (node * list dcase)) (base : N) (hc : hcase) : list (N * N * N) :=
  match hc with
  | (di, j, s, ops, obs) =>
      match nth_error ds (N.to_nat di) with
      | None => [(999, base + di, j)%N]
      | Some (root, _) =>
          match select_all (to_loc root) s with
          | [] => [(999, base + di, j)%N]
          | m :: _ =>
              let n := est_of (l_h m) in
              match first_diff obs (map rd_oval (w_run true ops (fresh n))) 0%N with
              | None => []
              | Some k => [(70, base + di, j * 100 + k)%N]
              end
          end
      end
  end.

Definition hmismatches (base : N) (ds : list (node * list dcase)) (hs : list hcase) : list (N * N * N) :=
  flat_map (hist_mism ds base) hs.

(* short constructors for the case files *)
Definition kv (l : list (string * string)) : decls := map (fun p => (bs (fst p), bs (snd p))) l.
Definition bl (l : list string) : list bytes := map bs l.
Definition Rs (l : list string) : hop := Rd (RStyle (bl l)).
Definition RS : hop := Rd RStyles.
Definition Rg (l : list string) : hop := Rd (RAttrGet (bl l)).
Definition RA : hop := Rd RAttrs.
Definition Rm (n : string) : hop := Rd (RAttrMember (bs n)).
Definition Fs (l : list string) : hop := RdFresh (RStyle (bl l)).
Definition FS : hop := RdFresh RStyles.
Definition Fg (l : list string) : hop := RdFresh (RAttrGet (bl l)).
Definition FA : hop := RdFresh RAttrs.
Definition Fm (n : string) : hop := RdFresh (RAttrMember (bs n)).
Definition sa (k v : string) : aset := SetA (bs k) (bs v).
Definition ss (l : list (string * string)) : aset := SetS (kv l).
Definition Wa (a : aset) : hop := WAttr a.
Definition Wb (l : list aset) : hop := WAttrs l.
Definition Ws (k v : string) : hop := WStyle (bs k) (bs v).
Definition Wss (l : list (string * string)) : hop := WStyles (kv l).
Definition Xa (l : list string) : hop := RmAttr (bl l).
Definition Xs (l : list string) : hop := RmStyle (bl l).

Definition h (tag : string) (attrs style : list (string * string)) : hdr :=
  mkH (bs tag) (map (fun kv => (bs (fst kv), bs (snd kv))) attrs) (map (fun kv => (bs (fst kv), bs (snd kv))) style).
Definition e (tag : string) (attrs style : list (string * string)) (kids : list node) : node := E (h tag attrs style) kids.
Definition t (s : string) : node := T (bs s).
Definition os (s : string) : oval := OS (bs s).
Definition tg (s : string) : simple := STag (bs s).
Definition cl (s : string) : simple := SClass (bs s).
Definition i_ (s : string) : simple := SId (bs s).
