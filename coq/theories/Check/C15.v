(* Check/C15.v — correspondence check for C15.

   The harness calls every registered in-memory library function on argument
   tuples, with a deep snapshot of every argument before and after the call,
   and calls it a second time on fresh equal arguments.  It sends one row per
   function; this file compares the rows with what the model claims
   (StdHeap.mutates_args (class_of f) = false, results a function of the
   arguments) and lists the disagreements:
     (1, function index, argument-tuple index)  an argument changed
     (2, function index, argument-tuple index)  two calls on equal arguments differ
   The class table below also feeds a drift diagnostic: a function whose
   observed behaviour contradicts its class in the heap model. *)
From Ferret Require Import Heap StdHeap.
From Ferret Require Export Check.Common.

(* name, calls, 1 + first tuple with a changed argument (0 = none),
   1 + first tuple with differing results (0 = none), deterministic family? *)
Definition row : Type := (string * N * N * N * bool)%type.

(* functions with a heap-level model in StdHeap.v; everything else is
   ReadOnly (reaches no in-place primitive of values.Array / values.Object) *)
Definition copy_then_mutate : list string :=
  ["APPEND"; "PUSH"; "UNSHIFT"; "POP"; "SHIFT"; "REMOVE_NTH"; "REMOVE_VALUE"; "REMOVE_VALUES";
   "REVERSE"; "UNIQUE"; "SORTED"; "SORTED_UNIQUE"; "UNION"; "UNION_DISTINCT"; "INTERSECTION";
   "MINUS"; "OUTERSECTION"; "FLATTEN"; "MERGE"; "VALUES"; "KEYS"; "KEEP_KEYS"; "ZIP";
   "SLICE"; "RANGE"; "SPLIT"; "REGEX_SPLIT"; "REGEX_MATCH"; "JSON_PARSE"; "TO_ARRAY";
   "ATTRIBUTES"; "PATH::SEPARATE"]%string.

Fixpoint string_eqb (a b : string) : bool :=
  match a, b with
  | EmptyString, EmptyString => true
  | String x r, String y s => ascii_eqb x y && string_eqb r s
  | _, _ => false
  end.
Definition mem (s : string) (l : list string) : bool := existsb (string_eqb s) l.

(* pinned: MERGE_RECURSIVE stores into objects reachable from its arguments
   (HeapProofs.merge_recursive_mutates_first_arg_refuted); repaired: clones *)
Definition class_of (pinned : bool) (f : string) : fclass :=
  if string_eqb f "MERGE_RECURSIVE" then (if pinned then MutatesArgument else CopyThenMutate)
  else if mem f copy_then_mutate then CopyThenMutate
  else ReadOnly.

Fixpoint rows_mism (T : list row) (i : N) : list (N * N * N) :=
  match T with
  | [] => []
  | (name, calls, mut, nd, det) :: r =>
      (* the property's claim: no function changes an argument; deterministic
         families return the same result on equal arguments *)
      (if (mut =? 0)%N then [] else [(1%N, i, (mut - 1)%N)]) ++
      (if negb det || (nd =? 0)%N then [] else [(2%N, i, (nd - 1)%N)]) ++
      rows_mism r (i + 1)%N
  end.
Definition mismatches (T : list row) : list (N * N * N) := rows_mism T 0%N.

(* drift: observed mutation agrees with neither variant of the heap model's class *)
Fixpoint rows_drift (T : list row) (i : N) : list (N * N * N) :=
  match T with
  | [] => []
  | (name, calls, mut, nd, det) :: r =>
      let observed := negb (mut =? 0)%N in
      (if Bool.eqb observed (mutates_args (class_of true name))
          || Bool.eqb observed (mutates_args (class_of false name)) then [] else [(3%N, i, 0%N)])
      ++ rows_drift r (i + 1)%N
  end.
Definition drift (T : list row) : list (N * N * N) := rows_drift T 0%N.
