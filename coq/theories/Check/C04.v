(* Check/C04.v — correspondence check for C04.  The harness sends, per case,
   the source array, the clause chain (expressions over the row variable x),
   and the array the implementation returned; the expected result is computed
   from the LIST-LEVEL SPECIFICATIONS (List.filter, Iter.sort_by, firstn/skipn,
   Iter.dedup, Iter.collect_groups) whose refinement by the iterator state
   machines is proved in Proofs/IterProofs.v. *)
From Ferret Require Import Eval Iter.
From Ferret Require Export Check.Common.

Inductive cl :=
| ClFilter (p : expr)
| ClSort (keys : list (expr * bool))
| ClLimit (o c : Z).

Inductive tl :=
| TlReturn (distinct : bool) (e : expr)
| TlCount                                   (* COLLECT WITH COUNT INTO c RETURN c *)
| TlGroup (k : list expr)                   (* COLLECT g.. = k.. RETURN [g..] *)
| TlGroupCount (k : list expr)              (* .. WITH COUNT INTO c RETURN [g.., c] *)
| TlGroupInto (k : list expr) (p : option expr)   (* .. INTO xs [= p] RETURN [g.., xs] *)
| TlGroupAggr (k : list expr) (p : expr)    (* .. AGGREGATE a = ARR(p) RETURN [g.., a] *)
| TlAggr (p : expr).                        (* COLLECT AGGREGATE a = ARR(p) RETURN a *)

Definition xname : name := bs "x".
Definition ev (e : expr) (v : value) : option value :=
  match eval 60 e [[(xname, v)]] (init_world [] false None) with
  | (Ok r, _) => Some r
  | _ => None
  end.
(* a row on which an expression fails makes the case unusable (None) *)
Fixpoint ev_all (e : expr) (rows : list value) : option (list value) :=
  match rows with
  | [] => Some []
  | v :: r => match ev e v, ev_all e r with Some a, Some b => Some (a :: b) | _, _ => None end
  end.
Fixpoint ev_keys (ks : list expr) (v : value) : option (list value) :=
  match ks with
  | [] => Some []
  | k :: r => match ev k v, ev_keys r v with Some a, Some b => Some (a :: b) | _, _ => None end
  end.
Fixpoint ev_keys_all (ks : list expr) (rows : list value) : option (list (list value * value)) :=
  match rows with
  | [] => Some []
  | v :: r => match ev_keys ks v, ev_keys_all ks r with Some a, Some b => Some ((a, v) :: b) | _, _ => None end
  end.

Definition keyed_lt (dirs : list bool) (a b : list value * value) : bool :=
  keys_lt (combine (fst a) dirs) (combine (fst b) dirs).

Definition apply_cl (c : cl) (rows : list value) : option (list value) :=
  match c with
  | ClFilter p =>
      match ev_all p rows with
      | Some bs_ => Some (map snd (filter (fun q => match fst q with VBool true => true | _ => false end)
                                          (combine bs_ rows)))
      | None => None
      end
  | ClSort keys =>
      match ev_keys_all (map fst keys) rows with
      | Some kr => Some (map snd (sort_by (keyed_lt (map snd keys)) kr))
      | None => None
      end
  | ClLimit o c => Some (firstn (Z.to_nat c) (skipn (Z.to_nat o) rows))
  end.

Fixpoint apply_chain (cs : list cl) (rows : list value) : option (list value) :=
  match cs with
  | [] => Some rows
  | c :: r => match apply_cl c rows with Some rows' => apply_chain r rows' | None => None end
  end.

Definition keylist_eqb (a b : list value) : bool := group_key_eqb a b.

(* rows sorted (stably) by the group keys, then grouped in first-occurrence order *)
Definition groups_of (ks : list expr) (rows : list value) : option (list (list value * list (list value * value))) :=
  match ev_keys_all ks rows with
  | Some kr =>
      let sorted := sort_by (keyed_lt (map (fun _ => false) ks)) kr in
      Some (collect_groups (fun q => fst q) keylist_eqb sorted)
  | None => None
  end.

Definition apply_tl (t : tl) (rows : list value) : option (list value) :=
  match t with
  | TlReturn d e =>
      match ev_all e rows with
      | Some vs => Some (if d then dedup struct_eqb vs else vs)
      | None => None
      end
  | TlCount => Some [VInt (Z.of_nat (length rows))]
  | TlGroup ks =>
      match groups_of ks rows with
      | Some gs => Some (map (fun g => VArr (fst g)) gs)
      | None => None
      end
  | TlGroupCount ks =>
      match groups_of ks rows with
      | Some gs => Some (map (fun g => VArr (fst g ++ [VInt (Z.of_nat (length (snd g)))])) gs)
      | None => None
      end
  | TlGroupInto ks p =>
      match groups_of ks rows with
      | Some gs =>
          (fix go (gs : list (list value * list (list value * value))) : option (list value) :=
             match gs with
             | [] => Some []
             | g :: r =>
                 let members := map snd (snd g) in
                 let proj := match p with
                             | Some pe => ev_all pe members
                             | None => Some (map (fun v => VObj [(xname, v)]) members)
                             end in
                 match proj, go r with
                 | Some ps, Some rest => Some (VArr (fst g ++ [VArr ps]) :: rest)
                 | _, _ => None
                 end
             end) gs
      | None => None
      end
  | TlGroupAggr ks p =>
      match groups_of ks rows with
      | Some gs =>
          (fix go (gs : list (list value * list (list value * value))) : option (list value) :=
             match gs with
             | [] => Some []
             | g :: r =>
                 match ev_all p (map snd (snd g)), go r with
                 | Some ps, Some rest => Some (VArr (fst g ++ [VArr [VArr ps]]) :: rest)
                 | _, _ => None
                 end
             end) gs
      | None => None
      end
  | TlAggr p =>
      match rows with
      | [] => Some [VArr []]
      | _ => match ev_all p rows with Some ps => Some [VArr [VArr ps]] | None => None end
      end
  end.

Definition spec (src : list value) (cs : list cl) (t : tl) (after : option (Z * Z)) : option value :=
  match apply_chain cs src with
  | Some rows =>
      match apply_tl t rows with
      | Some out => Some (VArr (match after with
                                | Some (o, c) => firstn (Z.to_nat c) (skipn (Z.to_nat o) out)
                                | None => out
                                end))
      | None => None
      end
  | None => None
  end.

(* impl = None: the implementation failed.  kinds: 0 differs, 2 impl failed,
   100 case outside the spec's domain (an expression failed on some row) *)
Definition check_case (i : N) (c : list value * list cl * tl * option (Z * Z) * option value) : list (N * N * N) :=
  let '(src, cs, t, after, impl) := c in
  match spec src cs t after with
  | None => [(100%N, i, 0%N)]
  | Some exp =>
      match impl with
      | Some got => if vcompare exp got =? 0 then [] else [(0%N, i, 0%N)]
      | None => [(2%N, i, 0%N)]
      end
  end.
Fixpoint mism_from (i : N) cs : list (N * N * N) :=
  match cs with
  | [] => []
  | c :: r => check_case i c ++ mism_from (i + 1)%N r
  end.
Definition mismatches cs := mism_from 0%N cs.
