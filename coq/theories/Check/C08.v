(* Check/C08.v — correspondence check for C08.  The harness supplies the
   universe U and, taken from the implementation: the equivalence classes
   induced by Value.Hash (CH), by values.MapHash of {k: v} (CM) and by
   values.MapHash of an object's own member map (CO) on U, what
   happens under every insertion order of each object, the class of Copy /
   Clone of every value, and the outputs of the de-duplicating constructs on
   arrays drawn from U.  [mismatches] lists every place where an observation
   differs from what structural identity (the specification) demands.
   Exact hash values are compared only by [drift] (a diagnostic). *)
From Ferret Require Import Compare Hash.
From Ferret Require Export Check.Common.

Definition T3 := (N * N * N)%type.

(* kind 0 / 5: for i < j, "same class" must coincide with structural identity.
   kind 6: the same for values.MapHash applied directly to the member map of
   two objects (CO; entries that are not objects carry a class >= |U| and are
   skipped).  There is no exception for any shape of key: the pairs that
   collided while keys were hashed without their length ({a: v, b: w} against
   {"a:" ++ le64 (hash v) ++ ",b": w}, planted by the harness for several v, w)
   must be in different classes like every other pair of different values. *)
Fixpoint row_classes (n : N) (ni : value) (ci mi oi : N) (ns : list value) (cs ms os : list N) (i j : N) : list T3 :=
  match ns, cs, ms, os with
  | nj :: ns', cj :: cs', mj :: ms', oj :: os' =>
      let e := value_eqb ni nj in
      (if Bool.eqb (ci =? cj)%N e then [] else [(0%N, i, j)]) ++
      (if Bool.eqb (mi =? mj)%N e then [] else [(5%N, i, j)]) ++
      (if (n <=? oi)%N || (n <=? oj)%N || Bool.eqb (oi =? oj)%N e then [] else [(6%N, i, j)]) ++
      row_classes n ni ci mi oi ns' cs' ms' os' i (j + 1)%N
  | [], [], [], [] => []
  | _, _, _, _ => [(9%N, i, j)]
  end.

Definition is_obj (v : value) : bool := match v with VObj _ => true | _ => false end.

Fixpoint rows_classes (n : N) (ns : list value) (cs ms os : list N) (i : N) : list T3 :=
  match ns, cs, ms, os with
  | ni :: ns', ci :: cs', mi :: ms', oi :: os' =>
      (* MapHash of an object's members must have been observed *)
      (if is_obj ni && (n <=? oi)%N then [(6%N, i, i)] else []) ++
      row_classes n ni ci mi oi ns' cs' ms' os' i (i + 1)%N ++ rows_classes n ns' cs' ms' os' (i + 1)%N
  | [], [], [], [] => []
  | _, _, _, _ => [(9%N, i, 0%N)]
  end.

(* kind 1: every insertion order of an object gives the same hash and compares
   equal (the model proves it: the expected observation is always [true]) *)
Fixpoint perms_mism (PM : list (N * bool * bool)) : list T3 :=
  match PM with
  | [] => []
  | (i, h, c) :: r =>
      (if h then [] else [(1%N, i, 0%N)]) ++ (if c then [] else [(1%N, i, 1%N)]) ++ perms_mism r
  end.

(* kind 2 (Copy) / 3 (Clone): the copy is structurally identical (its class is
   sent as the index of a universe entry with the same rendering), has the
   same hash, compares equal, does not share storage, and its hash remains a function
   of its content after a member nested in it is changed in place (bit 8: no stale
   cached hash).  Values that do not
   implement Cloneable are sent with class = |U| and are accepted only when the
   model agrees that the kind has no Clone. *)
Definition cloneable (v : value) : bool :=
  match v with VNone | VArr _ | VObj _ => true | _ => false end.

Fixpoint copies_mism (kind : N) (U us : list value) (CP : list N) (B : list N) (i : N) : list T3 :=
  match us, CP, B with
  | v :: us', c :: CP', b :: B' =>
      let rest := copies_mism kind U us' CP' B' (i + 1)%N in
      if (kind =? 3)%N && (c =? N.of_nat (length U))%N then
        (if cloneable v then (kind, i, 9%N) :: rest else rest)
      else
        match nth_error U (N.to_nat c) with
        | Some w => if struct_eqb v w && (b =? 15)%N then rest else (kind, i, b) :: rest
        | None => (kind, i, 8%N) :: rest
        end
  | [], [], [] => []
  | _, _, _ => [(9%N, i, kind)]
  end.

(* kinds 10..: de-duplicating constructs.  Outputs are lists of universe
   indices (|U| or more = the construct failed / produced a foreign value). *)
Fixpoint lookup_all (U : list value) (ix : list N) : option (list value) :=
  match ix with
  | [] => Some []
  | i :: r => match nth_error U (N.to_nat i), lookup_all U r with
              | Some v, Some l => Some (v :: l)
              | _, _ => None
              end
  end.

Fixpoint list_struct_eqb (a b : list value) : bool :=
  match a, b with
  | [], [] => true
  | x :: a', y :: b' => struct_eqb x y && list_struct_eqb a' b'
  | _, _ => false
  end.

Fixpoint remove_first (x : value) (l : list value) : option (list value) :=
  match l with
  | [] => None
  | y :: r => if struct_eqb x y then Some r
              else match remove_first x r with Some r' => Some (y :: r') | None => None end
  end.
Fixpoint perm_struct_eqb (a b : list value) : bool :=
  match a with
  | [] => match b with [] => true | _ => false end
  | x :: r => match remove_first x b with Some b' => perm_struct_eqb r b' | None => false end
  end.

Fixpoint counts_ok (xs ks : list value) (cs : list N) : bool :=
  match ks, cs with
  | [], [] => true
  | k :: ks', c :: cs' => (count_struct k xs =? c)%N && counts_ok xs ks' cs'
  | _, _ => false
  end.

(* construct j of a case:
   0 RETURN DISTINCT   1 UniqueIterator   2 arrays.Unique   3 UNIQUE() in a query
   4 UNION_DISTINCT(first half, second half)               (ordered: = firsts input)
   5 SORTED_UNIQUE     6 COLLECT k = x                      (as sets)
   7 COLLECT k = x WITH COUNT INTO c  (keys as a set, and per key its count) *)
Definition ordered (j : N) : bool := (j <? 5)%N.

Definition construct_ok (U : list value) (xs : list value) (j : N) (out : list N) (cnt : list N) : bool :=
  match lookup_all U out with
  | None => false
  | Some o =>
      let spec := firsts xs in
      if ordered j then list_struct_eqb o spec
      else if (j =? 7)%N then perm_struct_eqb spec o && counts_ok xs o cnt
      else perm_struct_eqb spec o
  end.

Fixpoint outs_mism (U xs : list value) (outs : list (list N)) (cnt : list N) (i j : N) : list T3 :=
  match outs with
  | [] => []
  | o :: r =>
      (if construct_ok U xs j o cnt then [] else [(10 + j, i, 0)%N]) ++ outs_mism U xs r cnt i (j + 1)%N
  end.

Fixpoint dedup_mism (U : list value) (D : list (list N * list (list N) * list N)) (i : N) : list T3 :=
  match D with
  | [] => []
  | (inp, outs, cnt) :: r =>
      (match lookup_all U inp with
       | Some xs => outs_mism U xs outs cnt i 0%N
       | None => [(9%N, i, 2%N)]
       end) ++ dedup_mism U r (i + 1)%N
  end.

Definition mismatches (U : list value) (CH CM CO : list N) (PM : list (N * bool * bool))
  (CP BC CL BL : list N) (D : list (list N * list (list N) * list N)) : list T3 :=
  rows_classes (N.of_nat (length U)) (map norm U) CH CM CO 0%N ++ perms_mism PM
  ++ copies_mism 2%N U U CP BC 0%N ++ copies_mism 3%N U U CL BL 0%N
  ++ dedup_mism U D 0%N.

(* a block of extra (random, deeper) values: classes within the block only *)
Definition mismatches_block (U : list value) (CH CM CO : list N) (PM : list (N * bool * bool))
  (CP BC CL BL : list N) : list T3 :=
  mismatches U CH CM CO PM CP BC CL BL [].

(* ---- drift diagnostic: in how many universe entries does the exact 64-bit
   value of the implementation differ from the FNV-1a model? *)
Fixpoint hexN (s : string) (acc : N) : N :=
  match s with
  | EmptyString => acc
  | String c r => hexN r (acc * 16 + hexval c)%N
  end.
Fixpoint drift_aux (us : list value) (H : list string) : N :=
  match us, H with
  | v :: us', h :: H' => ((if (hash v =? hexN h 0)%N then 0 else 1) + drift_aux us' H')%N
  | _, _ => 0%N
  end.
Definition drift (U : list value) (H : list string) : N := drift_aux U H.
Fixpoint drift_map_aux (us : list value) (H : list string) : N :=
  match us, H with
  | v :: us', h :: H' => ((if (collect_key (bs "k") v =? hexN h 0)%N then 0 else 1) + drift_map_aux us' H')%N
  | _, _ => 0%N
  end.
Definition drift_map (U : list value) (H : list string) : N := drift_map_aux U H.
(* MapHash of the member map of every object (other entries are skipped) *)
Fixpoint drift_members_aux (us : list value) (H : list string) : N :=
  match us, H with
  | VObj m :: us', h :: H' => ((if (map_hash m =? hexN h 0)%N then 0 else 1) + drift_members_aux us' H')%N
  | _ :: us', _ :: H' => drift_members_aux us' H'
  | _, _ => 0%N
  end.
Definition drift_members (U : list value) (H : list string) : N := drift_members_aux U H.
