(* Check/C05.v — correspondence check for C05 (only complete, well-formed
   query text is accepted).  The harness sends query texts with the
   implementation's observation — one character per text: "0" compiled,
   "1" syntax error, "2" grammatical but statically wrong (unknown variable or
   function, duplicate declaration, bad literal), "3" any other failure — and
   the kinds of the tokens its lexer produced.  The model lexes the text,
   builds the variants itself (deletion / duplication of token k, suffix j
   appended) and decides well-formedness with the reference parser.

   mismatch kinds (i = case, j = variant):
     0  generated program is not well-formed for the model
     1  generated program (well-formed, compiles by construction) rejected
     2  deletion/duplication variant: ill-formed text accepted
     3  deletion/duplication variant: well-formed text rejected (syntax/other)
     4  suffix variant: text after a complete program accepted
     5  suffix variant: well-formed text rejected (syntax/other)
     6  the token kinds of the lexers differ
     7  listed text: ill-formed text accepted
     8  listed text: well-formed text rejected
     9  listed text that must be accepted (repository file) is ill-formed for the model
     10  the reference parser ran out of fuel on the text (never happens; a
         mismatch of its own, not a verdict)
     100  skipped: the text uses USE / WAITFOR (outside the model)

   Well-formed means: the whole token list parses under SOME reading of the
   '?' tokens that follow ')' (error operator or ternary) — Parser.parse_query
   tries them all, in the generated parser's order of preference. *)
From Ferret Require Import Render.
From Ferret Require Export Check.Common.

Definition kinds_agree (ts : toks) (s : string) : bool :=
  (fix go (ts : toks) (s : string) : bool :=
     match ts, s with
     | [], EmptyString => true
     | t :: ts', String c s' => (N_of_ascii c =? 48 + kind_code (fst t))%N && go ts' s'
     | _, _ => false
     end) ts s.

(* Some true: well-formed, Some false: ill-formed, None: out of fuel *)
Definition wfq (ts : toks) : option bool :=
  match parse_query ts with POk _ _ => Some true | PFail => Some false | PFuel => None end.
Definition wf (ts : toks) : bool := match wfq ts with Some true => true | _ => false end.

Definition accepted (o : ascii) : bool := (N_of_ascii o =? 48)%N.
(* with the model's verdict [w], is observation [o] what the property allows? *)
Definition obs_ok (w : bool) (o : ascii) : bool :=
  if w then (N_of_ascii o =? 48)%N || (N_of_ascii o =? 50)%N else negb (accepted o).

Fixpoint remove_nth {A} (n : nat) (l : list A) : list A :=
  match l, n with
  | [], _ => []
  | _ :: r, O => r
  | x :: r, S k => x :: remove_nth k r
  end.
Fixpoint dup_nth {A} (n : nat) (l : list A) : list A :=
  match l, n with
  | [], _ => []
  | x :: r, O => x :: x :: r
  | x :: r, S k => x :: dup_nth k r
  end.

Definition verdict (kill kwell : N) (i j : N) (ts : toks) (o : ascii) : list (N * N * N) :=
  if uses_unsupported ts then [(100%N, i, j)]
  else
    match wfq ts with
    | None => [(10%N, i, j)]
    | Some w => if obs_ok w o then [] else [((if w then kwell else kill), i, j)]
    end.

(* variants of one program; [o] = observations: base, deletions, duplications, suffixes *)
Fixpoint variants (mk : nat -> toks) (kill kwell : N) (i : N) (j0 : N) (k n : nat) (o : string)
  : list (N * N * N) * string :=
  match n with
  | O => ([], o)
  | S n' =>
      match o with
      | String c o' =>
          let '(r, o'') := variants mk kill kwell i (j0 + 1)%N (S k) n' o' in
          (verdict kill kwell i j0 (mk k) c ++ r, o'')
      | EmptyString => ([(6%N, i, j0)], o)
      end
  end.

Definition check_prog (sufs : list toks) (i : N) (c : bytes * string * string) : list (N * N * N) :=
  let '(q, ks, o) := c in
  match lex q with
  | None => [(6%N, i, 0%N)]
  | Some ts =>
      let n := List.length ts in
      (if kinds_agree ts ks then [] else [(6%N, i, 0%N)]) ++
      match o with
      | EmptyString => [(6%N, i, 1%N)]
      | String b o1 =>
          match wfq ts with
          | None => [(10%N, i, 0%N)]
          | Some true => if obs_ok true b then [] else [(1%N, i, 0%N)]
          | Some false => [(0%N, i, 0%N)]
          end ++
          let '(r1, o2) := variants (fun k => remove_nth k ts) 2%N 3%N i 1%N 0 n o1 in
          let '(r2, o3) := variants (fun k => dup_nth k ts) 2%N 3%N i (1 + N.of_nat n)%N 0 n o2 in
          let '(r3, _) := variants (fun k => ts ++ nth k sufs []) 4%N 5%N i (1 + 2 * N.of_nat n)%N 0
                                   (List.length sufs) o3 in
          r1 ++ r2 ++ r3
      end
  end.

Fixpoint progs_from (sufs : list toks) (i : N) (cs : list (bytes * string * string)) : list (N * N * N) :=
  match cs with
  | [] => []
  | c :: r => check_prog sufs i c ++ progs_from sufs (i + 1)%N r
  end.

(* listed texts: (text, token kinds, observation, must be accepted) *)
Definition check_text (i : N) (c : bytes * string * ascii * bool) : list (N * N * N) :=
  let '(q, ks, o, must) := c in
  match lex q with
  | None => [(6%N, i, 0%N)]
  | Some ts =>
      (if kinds_agree ts ks then [] else [(6%N, i, 0%N)]) ++
      (if uses_unsupported ts then [(100%N, i, 0%N)]
       else
         match wfq ts with
         | None => [(10%N, i, 0%N)]
         | Some w =>
             (if must && negb w then [(9%N, i, 0%N)] else []) ++
             (if obs_ok w o then [] else [((if w then 8%N else 7%N), i, 0%N)])
         end)
  end.
Fixpoint texts_from (i : N) (cs : list (bytes * string * ascii * bool)) : list (N * N * N) :=
  match cs with
  | [] => []
  | c :: r => check_text i c ++ texts_from (i + 1)%N r
  end.

Definition lex_or_nil (q : bytes) : toks := match lex q with Some ts => ts | None => [] end.

Definition mismatches (sufs : list bytes) (progs : list (bytes * string * string))
           (texts : list (bytes * string * ascii * bool)) : list (N * N * N) :=
  progs_from (map lex_or_nil sufs) 0%N progs ++ texts_from 0%N texts.
