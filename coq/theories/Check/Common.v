(* Check/Common.v — helpers used by the harness-written case files. *)
From Ferret Require Export Base.

Definition sign_char (z : Z) : ascii :=
  if z <? 0 then "<"%char else if z =? 0 then "="%char else ">"%char.

Fixpoint bits_to_N (bs : list bool) : N :=
  match bs with
  | [] => 0%N
  | b :: r => ((if b then 1 else 0) + 2 * bits_to_N r)%N
  end.

(* six booleans packed into one printable character, 48 + value *)
Definition pack6 (bs : list bool) : ascii := ascii_of_N (48 + bits_to_N bs).

Definition ascii_eqb (a b : ascii) : bool := (N_of_ascii a =? N_of_ascii b)%N.

Fixpoint nth_char (s : string) (n : nat) : option ascii :=
  match s, n with
  | String a _, O => Some a
  | String _ r, S k => nth_char r k
  | EmptyString, _ => None
  end.

Definition bool_char (b : bool) : ascii := if b then "T"%char else "F"%char.

(* three base-4 digits per character: code = 48 + d0 + 4*d1 + 16*d2; the last
   character of a row may carry padding digits, which [take] cuts off *)
Fixpoint unpack3 (s : string) : list N :=
  match s with
  | EmptyString => []
  | String c r =>
      let n := (N_of_ascii c - 48)%N in
      (n mod 4)%N :: ((n / 4) mod 4)%N :: ((n / 16) mod 4)%N :: unpack3 r
  end.
Fixpoint unpack1 (s : string) : list N :=
  match s with
  | EmptyString => []
  | String c r => (N_of_ascii c - 48)%N :: unpack1 r
  end.
Definition sign_code (z : Z) : N := if z <? 0 then 0%N else if z =? 0 then 1%N else 2%N.
