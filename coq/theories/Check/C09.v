(* Check/C09.v — correspondence check for C09.  For every case the harness
   sends the value, the bytes returned by Value.MarshalJSON, the bytes returned
   by Program.Run for RETURN @p (None when identical), and the number of
   distinct byte strings obtained from the same value built in several
   insertion orders.  The verdict is the outcome of the property's predicates,
   decided here by the model's RFC 8259 parser and [denotesb], on the
   IMPLEMENTATION's bytes.  Byte equality with the model's own serializer is
   computed by [drift] only (a diagnostic). *)
From Ferret Require Import Json.
From Ferret Require Export Check.Common.

Definition T3 := (N * N * N)%type.

(* failed predicates as a bit mask:
   1 not valid UTF-8 JSON            2 does not parse back to the value
   4 differs across insertion orders 8 members not in sorted key order
   16 markup characters escaped      32 an error where bytes were due (or the reverse) *)
Definition verdict (v : value) (err : bool) (B : bytes) (nv : N) : N :=
  if negb (marshal_ok v) then (if err then 0 else 32)%N
  else if err then 32%N
  else
    match parse_json B with
    | None => 1%N
    | Some j =>
        if strings_valid v then
          ((if denotesb j v then 0 else 2) + (if (nv =? 1)%N then 0 else 4)
           + (if keys_sorted j then 0 else 8)
           + (if Nat.eqb (count_markup B) (value_markup v) then 0 else 16))%N
        else 0%N      (* invalid UTF-8 inside: only validity is required *)
    end.

Definition case := (value * bool * bytes * option (bool * bytes) * N)%type.

Fixpoint mismatches_from (CS : list case) (i : N) : list T3 :=
  match CS with
  | [] => []
  | (v, err, B, R, nv) :: r =>
      let m1 := verdict v err B nv in
      let m2 := match R with
                | None => m1
                | Some (err2, B2) => verdict v err2 B2 1%N
                end in
      (if (m1 =? 0)%N then [] else [(0%N, i, m1)]) ++
      (if (m2 =? 0)%N then [] else [(1%N, i, m2)]) ++ mismatches_from r (i + 1)%N
  end.
Definition mismatches (CS : list case) : list T3 := mismatches_from CS 0%N.

(* ---- drift diagnostic: cases whose bytes differ from the model's serializer,
   the float text being taken from the implementation (table FT) *)
Fixpoint ff_of (FT : list (N * bytes)) (b : N) : bytes :=
  match FT with
  | [] => []
  | (b', t) :: r => if (b =? b')%N then t else ff_of r b
  end.
Fixpoint drift_from (FT : list (N * bytes)) (CS : list case) : N :=
  match CS with
  | [] => 0%N
  | (v, err, B, _, _) :: r =>
      ((if err || bytes_eqb (to_json (ff_of FT) v) B then 0 else 1) + drift_from FT r)%N
  end.
Definition drift (FT : list (N * bytes)) (CS : list case) : N := drift_from FT CS.
