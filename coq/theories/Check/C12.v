(* Check/C12.v — correspondence check for C12.  For every generated program the
   harness compiles it once, runs it sequentially and from many goroutines,
   and reports three observations: all sequential reruns returned the bytes of
   the first run; all concurrent runs with equal parameters returned those
   bytes; every concurrent run with its own parameter value returned exactly
   what a solo run with that value returns (and echoed its own value).  The
   model predicts [true] for each (rerun_same_bytes, equal_params_equal_bytes,
   params_isolated); a row of [mismatches] is an observation that differs.

   Input: one character per program, code - 48 = b_seq + 2 b_conc + 4 b_param
   (+ 8 when the program is outside the comparison: it draws random numbers). *)
From Ferret Require Import Interleave.
From Ferret Require Export Check.Common.
Local Open Scope N_scope.

Definition bit (n k : N) : bool := N.testbit n k.

Definition row (i : N) (c : ascii) : list (N * N * N) :=
  let n := N_of_ascii c - 48 in
  if bit n 3 then []                              (* excluded from the byte comparison *)
  else (if Bool.eqb (bit n 0) predicted then [] else [(1, i, 0)]) ++
       (if Bool.eqb (bit n 1) predicted then [] else [(2, i, 0)]) ++
       (if Bool.eqb (bit n 2) predicted then [] else [(3, i, 0)]).

Fixpoint rows (i : N) (s : string) : list (N * N * N) :=
  match s with
  | EmptyString => []
  | String c r => row i c ++ rows (i + 1) r
  end.

Definition mismatches (obs : string) : list (N * N * N) := rows 0 obs.
