(* Check/C01.v — correspondence check for C01.  Each case is the class observed
   by running Compile (+ Run) on one input in an isolated worker process.  The
   classes a total API may produce are exactly those of RunApi.run_api
   (RunApiProofs.run_total): a compile error, valid JSON, or a non-nil error.
   For generated programs the model additionally predicts the class.
   kinds: 0 forbidden class (nil-nil, escaped panic, crash, hang, neither/both
   of program and error, invalid JSON), 2 class differs from the model's
   prediction for a generated program, 100 skipped. *)
From Ferret Require Import RunApi.
From Ferret Require Export Check.Common.

Inductive cls := KCompileErr | KOk | KErr | KNilNil | KEscaped | KCrash | KHang
               | KCompilePanic | KCompileNeither | KBadJson.

Definition allowed (k : cls) : bool :=
  match k with KCompileErr | KOk | KErr => true | _ => false end.

Definition params0 : list (name * value) :=
  [(bs "n", VInt 2); (bs "arr", VArr [VInt 3; VInt 1; VInt 2; VInt 1]);
   (bs "obj", VObj [(bs "a", VInt 1); (bs "list", VArr [VInt 1; VInt 2])]);
   (bs "s", VStr (bs "k")); (bs "f", VFloat 4609434218613702656%N);
   (bs "big", VArr [VInt 2; VInt 1; VInt 2; VInt 1])].

Definition check_case (i : N) (c : option program * cls) : list (N * N * N) :=
  let '(p, k) := c in
  (if allowed k then [] else [(0%N, i, 0%N)]) ++
  match p with
  | None => []
  | Some p =>
      match fst (run_api 400 p (init_world params0 false None)), k with
      | AUndefined, _ => [(100%N, i, 0%N)]
      | AJson _, KOk | AError, KErr => []
      | _, _ => if allowed k then [(2%N, i, 0%N)] else []
      end
  end.
Fixpoint mism_from (i : N) cs : list (N * N * N) :=
  match cs with
  | [] => []
  | c :: r => check_case i c ++ mism_from (i + 1)%N r
  end.
Definition mismatches cs := mism_from 0%N cs.
