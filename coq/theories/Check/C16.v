(* Check/C16.v — correspondence check for C16.

   The harness sends: the element pools, a code book OB of the distinct
   observations (results / failure classes) it obtained from the
   implementation, and for every function a packed string with one code-book
   index per case.  The cases themselves are enumerated HERE (all arrays of
   length 0..n over the pool, pairs, positions in [-2, len+2], ...), in the
   same order as harness/cmd/c16 enumerates them.

   [mismatches] compares the implementation with the SPECIFICATION (verdict).
   [drift]      compares the implementation with the MIRROR (diagnostic only). *)
From Ferret Require Import StdArrays StdObjects StdMath.
From Ferret Require Export Check.Common.

(* ------------------------------------------------------------------ *)
(* observations                                                         *)
Inductive obs : Type :=
| OA (s : string)     (* Ok, an array of pool elements; one char '0'+index each *)
| OV (v : value)      (* Ok, this value *)
| OE                  (* error *)
| OP.                 (* panic *)

Fixpoint chars (s : string) : list ascii :=
  match s with EmptyString => [] | String c r => c :: chars r end.

Definition obs_res (pool : list value) (o : obs) : res :=
  match o with
  | OA s => Ok (VArr (map (fun c => nth (N.to_nat (N_of_ascii c - 48)) pool VNone) (chars s)))
  | OV v => Ok v
  | OE => Err
  | OP => Panic
  end.

(* indices in base 90, characters 35..124, fixed width 1, 2 or 3 *)
Definition d90 (c : ascii) : N := (N_of_ascii c - 35)%N.
Fixpoint unpack90_1 (s : string) : list N :=
  match s with String a r => d90 a :: unpack90_1 r | _ => [] end.
Fixpoint unpack90_2 (s : string) : list N :=
  match s with
  | String a (String b r) => (d90 a * 90 + d90 b)%N :: unpack90_2 r
  | _ => []
  end.
Fixpoint unpack90_3 (s : string) : list N :=
  match s with
  | String a (String b (String c r)) => ((d90 a * 90 + d90 b) * 90 + d90 c)%N :: unpack90_3 r
  | _ => []
  end.
Definition unpack90 (w : N) (s : string) : list N :=
  if (w =? 1)%N then unpack90_1 s else if (w =? 2)%N then unpack90_2 s else unpack90_3 s.

(* ------------------------------------------------------------------ *)
(* enumerations                                                         *)
Fixpoint lists_exact {A : Type} (pool : list A) (n : nat) : list (list A) :=
  match n with
  | O => [[]]
  | S k => flat_map (fun x => map (cons x) (lists_exact pool k)) pool
  end.
Fixpoint lists_upto {A : Type} (pool : list A) (n : nat) : list (list A) :=
  match n with
  | O => [[]]
  | S k => lists_upto pool k ++ lists_exact pool (S k)
  end.

Fixpoint zrange (lo : Z) (n : nat) : list Z :=
  match n with O => [] | S k => lo :: zrange (lo + 1) k end.
(* positions -2 .. len+2 *)
Definition positions (l : list value) : list Z := zrange (-2) (List.length l + 5).

(* all objects over the keys K (in this order) with values from V *)
Fixpoint all_objs (K : list bytes) (V : list value) : list (list (bytes * value)) :=
  match K with
  | [] => [[]]
  | k :: ks =>
      let rest := all_objs ks V in
      rest ++ flat_map (fun v => map (cons (k, v)) rest) V
  end.

Record pools := { P : list value;        (* element pool *)
                  K : list bytes;        (* object keys *)
                  V : list value }.      (* object member values *)

Inductive family : Type :=
| FUnary (n : nat)          (* [a] *)
| FPairs (n : nat)          (* [a; b] *)
| FTriples (n : nat)        (* [a; b; c] *)
| FElem (n : nat)           (* [a; x] *)
| FElemFlag (n : nat)       (* [a; x], [a; x; false], [a; x; true] *)
| FPos (n : nat)            (* [a; p], p in -2..len+2 *)
| FSlice (n : nat)          (* [a; s], [a; s; c], s in -2..len+2, c in -1..len+2 *)
| FRmVal (n : nat)          (* [a; x], [a; x; lim], lim in -1..3 *)
| FDepth (n : nat)          (* [a], [a; d], d in -1..3 *)
| FObj1                     (* [o] *)
| FObjFlag                  (* [o], [o; false], [o; true] *)
| FObjKey                   (* [o; k], k in K and one absent key *)
| FObjElem                  (* [o; x], x in V *)
| FObjPairs                 (* [o1; o2] *)
| FObjPairsArr              (* [[o1; o2]] *)
| FObjTriples (m : nat)     (* [o1; o2; o3] over the first m objects *)
| FKeep                     (* [o; k...] and [o; [k...]] for key lists of length 0..2 *)
| FZip (n : nat)            (* [keys; vals] *)
| FPct (n : nat) (ps : list Z). (* [a; p] for p in ps *)

Definition arrs (pl : pools) (n : nat) : list value := map VArr (lists_upto (P pl) n).
Definition absent_key : bytes := bs "zz".
Definition key_vals (pl : pools) : list value := map VStr (K pl ++ [absent_key]).
Definition objs (pl : pools) : list value := map VObj (all_objs (K pl) (V pl)).

Definition cases_of (pl : pools) (f : family) : list (list value) :=
  match f with
  | FUnary n => map (fun a => [a]) (arrs pl n)
  | FPairs n => flat_map (fun a => map (fun b => [a; b]) (arrs pl n)) (arrs pl n)
  | FTriples n =>
      flat_map (fun a => flat_map (fun b => map (fun c => [a; b; c]) (arrs pl n)) (arrs pl n)) (arrs pl n)
  | FElem n => flat_map (fun a => map (fun x => [a; x]) (P pl)) (arrs pl n)
  | FElemFlag n =>
      flat_map (fun a => flat_map (fun x => [[a; x]; [a; x; VBool false]; [a; x; VBool true]]) (P pl))
               (arrs pl n)
  | FPos n => flat_map (fun a => map (fun p => [a; VInt p]) (positions (items a))) (arrs pl n)
  | FSlice n =>
      flat_map (fun a =>
        flat_map (fun s => [a; VInt s] ::
                           map (fun c => [a; VInt s; VInt c]) (zrange (-1) (List.length (items a) + 4)))
                 (positions (items a))) (arrs pl n)
  | FRmVal n =>
      flat_map (fun a => flat_map (fun x => [a; x] :: map (fun c => [a; x; VInt c]) (zrange (-1) 5)) (P pl))
               (arrs pl n)
  | FDepth n => flat_map (fun a => [a] :: map (fun d => [a; VInt d]) (zrange (-1) 5)) (arrs pl n)
  | FObj1 => map (fun o => [o]) (objs pl)
  | FObjFlag => flat_map (fun o => [[o]; [o; VBool false]; [o; VBool true]]) (objs pl)
  | FObjKey => flat_map (fun o => map (fun k => [o; k]) (key_vals pl)) (objs pl)
  | FObjElem => flat_map (fun o => map (fun x => [o; x]) (V pl)) (objs pl)
  | FObjPairs => flat_map (fun a => map (fun b => [a; b]) (objs pl)) (objs pl)
  | FObjPairsArr => flat_map (fun a => map (fun b => [VArr [a; b]]) (objs pl)) (objs pl)
  | FObjTriples m =>
      let os := firstn m (objs pl) in
      flat_map (fun a => flat_map (fun b => map (fun c => [a; b; c]) os) os) os
  | FKeep =>
      flat_map (fun o =>
        flat_map (fun ks => [o :: ks; [o; VArr ks]]) (lists_upto (key_vals pl) 2)) (objs pl)
  | FZip n =>
      flat_map (fun ks => map (fun vs => [VArr ks; VArr vs]) (lists_upto (P pl) n))
               (lists_upto (map VStr (K pl)) n)
  | FPct n ps => flat_map (fun a => map (fun p => [a; VInt p]) ps) (arrs pl n)
  end.

(* ------------------------------------------------------------------ *)
(* comparison of an observation with a specification                    *)
Fixpoint remove_first (x : value) (l : list value) : option (list value) :=
  match l with
  | [] => None
  | y :: r => if heq x y then Some r
              else match remove_first x r with Some r' => Some (y :: r') | None => None end
  end.
Fixpoint perm_eqb (a b : list value) : bool :=
  match a with
  | [] => match b with [] => true | _ => false end
  | x :: r => match remove_first x b with Some b' => perm_eqb r b' | None => false end
  end.
Definition subsetb (a b : list value) : bool := forallb (fun x => hmemb x b) a.
Definition seteqb (a b : list value) : bool := subsetb a b && subsetb b a.
Fixpoint nodupb (l : list value) : bool :=
  match l with [] => true | x :: r => negb (hmemb x r) && nodupb r end.

Definition agree (o : res) (s : sres) : bool :=
  match s with
  | SUnspec => true
  | SErr => match o with Err => true | _ => false end
  | SOkArray => match o with Ok (VArr _) => true | _ => false end
  | SVal v => match o with Ok w => heq w v | _ => false end
  | SPerm l => match o with Ok (VArr r) => perm_eqb l r | _ => false end
  | SSet l => match o with Ok (VArr r) => seteqb l r | _ => false end
  | SSetNoDup l => match o with Ok (VArr r) => seteqb l r && nodupb r | _ => false end
  | SSortedPerm l => match o with Ok (VArr r) => sortedb r && perm_eqb l r | _ => false end
  | SSortedSet l => match o with Ok (VArr r) => sortedb r && seteqb l r && nodupb r | _ => false end
  end.

(* observation against the mirror: same outcome class; arrays of the
   set-valued functions up to order, objects up to member order *)
Definition drift_ok (setlike : bool) (o m : res) : bool :=
  match o, m with
  | _, Unmodelled => true
  | Ok (VArr a), Ok (VArr b) => if setlike then perm_eqb a b else heq (VArr a) (VArr b)
  | Ok a, Ok b => heq a b
  | Err, Err => true
  | Panic, Panic => true
  | _, _ => false
  end.

(* ---- numbers *)
Definition is_nan_bits (b : N) : bool := (f_exp b =? 2047)%N && negb (f_man b =? 0)%N.
Definition Qabs' (q : Q) : Q := if Qle_bool 0 q then q else Qopp q.
Definition p2 (n : positive) : Q := inject_Z (Z.pow_pos 2 n).

(* r is a double nearest to s/n: no neighbouring double is strictly closer *)
Definition nearest_quot (bits : N) (s n : Q) : bool :=
  match num_of (VFloat bits) with
  | None => false
  | Some r =>
      let mag := N.land bits (N.ones 63) in
      if (mag =? 0)%N then Qeq_bool s 0
      else
        match num_of (VFloat (bits - 1)), num_of (VFloat (bits + 1)) with
        | Some lo, Some hi =>
            let e := (2 * Qabs' (r * n - s))%Q in
            Qle_bool e (Qabs' n * Qabs' (lo - r)) && Qle_bool e (Qabs' n * Qabs' (hi - r))
        | _, _ => false
        end
  end.
Definition close40 (r q : Q) : bool := Qle_bool (Qabs' (r - q) * p2 40) (Qabs' q).

Definition nagree (o : res) (s : nsres) : bool :=
  match s with
  | NSUnspec => true
  | NSNoValue =>
      match o with
      | Ok VNone => true
      | Ok (VFloat b) => is_nan_bits b
      | _ => false
      end
  | NSExact q => match o with
                 | Ok v => match num_of v with Some r => Qeq_bool r q | None => false end
                 | _ => false
                 end
  | NSAvg s n => match o with Ok (VFloat b) => nearest_quot b s n | _ => false end
  | NSApprox q => match o with
                  | Ok (VFloat b) => match num_of (VFloat b) with Some r => close40 r q | None => false end
                  | _ => false
                  end
  | NSSqrt q => match o with
                | Ok (VFloat b) =>
                    match num_of (VFloat b) with
                    | Some r => Qle_bool 0 r && Qle_bool (Qabs' (r * r - q) * p2 39) (Qabs' q)
                    | None => false
                    end
                | _ => false
                end
  end.

Definition ndrift_ok (o : res) (m : mres) : bool :=
  match m with
  | MUnmodelled => true
  | MErr => match o with Err => true | _ => false end
  | MPanic => match o with Panic => true | _ => false end
  | MNaN => match o with Ok (VFloat b) => is_nan_bits b | _ => false end
  | MVal v => match o with Ok w => heq w v | _ => false end
  | MQ q => match o with
            | Ok v => match num_of v with Some r => close40 r q | None => false end
            | _ => false
            end
  | MSqrt q => nagree o (NSSqrt q)
  end.

(* ------------------------------------------------------------------ *)
(* dispatch                                                             *)
(* FS2 / FN2: the pinned mirror and the mirror of the proposed repair *)
Inductive fspec : Type := FS (m : list value -> res) (s : list value -> sres) (setlike : bool)
                        | FS2 (m m' : list value -> res) (s : list value -> sres) (setlike : bool)
                        | FN (m : list value -> mres) (s : list value -> nsres)
                        | FN2 (m m' : list value -> mres) (s : list value -> nsres)
                        | FNone.

Definition fn_of (fid : N) : fspec :=
  match fid with
  | 1 => FS m_union s_union true
  | 2 => FS m_union_distinct s_union_distinct true
  | 3 => FS2 m_intersection m_intersection_fx s_intersection true
  | 4 => FS m_minus s_minus true
  | 5 => FS2 m_outersection m_outersection_fx s_outersection true
  | 6 => FS m_unique s_unique false
  | 7 => FS m_sorted s_sorted false
  | 8 => FS m_sorted_unique s_sorted_unique false
  | 9 => FS m_flatten s_flatten false
  | 10 => FS2 m_slice m_slice_fx s_slice false
  | 11 => FS m_first s_first false
  | 12 => FS m_last s_last false
  | 13 => FS2 m_nth m_nth_fx s_nth false
  | 14 => FS m_append s_append false
  | 15 => FS m_push s_append false
  | 16 => FS m_unshift s_unshift false
  | 17 => FS m_pop s_pop false
  | 18 => FS m_shift s_shift false
  | 19 => FS2 m_remove_nth m_remove_nth_fx s_remove_nth false
  | 20 => FS2 m_remove_value m_remove_value_fx s_remove_value false
  | 21 => FS m_remove_values s_remove_values false
  | 22 => FS m_reverse s_reverse false
  | 23 => FS m_length s_length false
  | 24 => FS m_includes s_includes false
  | 25 => FS m_position s_position false
  | 30 => FS m_keys s_keys true
  | 31 => FS m_values s_values true
  | 32 => FS m_has s_has false
  | 33 => FS m_merge s_merge false
  | 34 => FS m_merge_recursive s_merge_recursive false
  | 35 => FS m_keep_keys s_keep_keys false
  | 36 => FS m_zip s_zip false
  | 40 => FN m_min s_min
  | 41 => FN2 m_max m_max_fx s_max
  | 42 => FN m_sum s_sum
  | 43 => FN m_average s_average
  | 44 => FN m_median s_median
  | 45 => FN m_variance_population (s_variance 0)
  | 46 => FN m_variance_sample (s_variance 1)
  | 47 => FN m_stddev_population (s_stddev 0)
  | 48 => FN m_stddev_sample (s_stddev 1)
  | 49 => FN m_percentile (fun _ => NSUnspec)   (* PERCENTILE: only through its laws, below *)
  | _ => FNone
  end%N.

Definition verdict_ok (fid : N) (args : list value) (o : res) : bool :=
  match fn_of fid with
  | FS _ s _ | FS2 _ _ s _ => agree o (s args)
  | FN _ s | FN2 _ _ s => nagree o (s args)
  | FNone => false
  end.
Definition mirror_ok (fid : N) (args : list value) (o : res) : bool :=
  match fn_of fid with
  | FS m _ sl => drift_ok sl o (m args)
  | FS2 m m' _ sl => drift_ok sl o (m args) || drift_ok sl o (m' args)
  | FN m _ => ndrift_ok o (m args)
  | FN2 m m' _ => ndrift_ok o (m args) || ndrift_ok o (m' args)
  | FNone => false
  end.

(* ------------------------------------------------------------------ *)
(* one function: its family, index width, packed observations           *)
(* the packed observations come in chunks (a long string literal is a deep term) *)
Definition job : Type := (N * family * N * list string)%type.

(* a failing case is reported as (function id, case index, job index) *)
Fixpoint walk (ok : list value -> res -> bool) (fid jx : N) (cases : list (list value))
              (os : list res) (i : N) : list (N * N * N) :=
  match cases, os with
  | [], [] => []
  | args :: cr, o :: orr =>
      let rest := walk ok fid jx cr orr (i + 1)%N in
      if ok args o then rest else (fid, i, jx) :: rest
  | _, _ => [(999%N, jx, i)]           (* the two enumerations differ in length *)
  end.

Definition decode (pool : list value) (OB : list obs) (w : N) (ss : list string) : list res :=
  let table := map (obs_res pool) OB in
  flat_map (fun s => map (fun i => nth (N.to_nat i) table Unmodelled) (unpack90 w s)) ss.

Definition run_job (ok : N -> list value -> res -> bool) (pl : pools) (OB : list obs) (jx : N) (j : job)
  : list (N * N * N) :=
  match j with
  | (fid, fam, w, s) => walk (ok fid) fid jx (cases_of pl fam) (decode (P pl) OB w s) 0%N
  end.
Fixpoint run_jobs (ok : N -> list value -> res -> bool) (pl : pools) (OB : list obs)
                  (jobs : list job) (jx : N) : list (N * N * N) :=
  match jobs with
  | [] => []
  | j :: r => run_job ok pl OB jx j ++ run_jobs ok pl OB r (jx + 1)%N
  end.

(* ---- PERCENTILE laws on the implementation's outputs, against the
   specification's MIN and MAX: (149, array index, law) with law 1 = bounded,
   2 = monotone in the percentage, 3 = 100 gives MAX *)
Definition num_obs (o : res) : option Q :=
  match o with
  | Ok (VFloat b) => if is_nan_bits b then None else num_of (VFloat b)
  | Ok (VInt z) => num_of (VInt z)
  | _ => None
  end.
Fixpoint monotone (prev : option Q) (l : list (option Q)) : bool :=
  match l with
  | [] => true
  | None :: r => monotone prev r
  | Some q :: r => match prev with
                   | Some p => Qle_bool p q && monotone (Some q) r
                   | None => monotone (Some q) r
                   end
  end.
Fixpoint take_n {A : Type} (n : nat) (l : list A) : list A * list A :=
  match n, l with
  | S k, x :: r => let t := take_n k r in (x :: fst t, snd t)
  | _, _ => ([], l)
  end.
Definition pct_laws (a : list value) (ps : list Z) (os : list res) : list N :=
  match numeric_input [VArr a] with
  | Some (x :: r) =>
      let lo := q_min x r in
      let hi := q_max x r in
      let qs := map num_obs os in
      (if forallb (fun q => match q with Some v => Qle_bool lo v && Qle_bool v hi | None => true end) qs
       then [] else [1%N]) ++
      (if monotone None qs then [] else [2%N]) ++
      (if forallb (fun pq => if fst pq =? 100 then
                               match snd pq with Some v => Qeq_bool v hi | None => false end
                             else true) (combine ps qs)
       then [] else [3%N])
  | _ => []
  end.
Fixpoint pct_walk (as_ : list value) (ps : list Z) (os : list res) (i : N) : list (N * N * N) :=
  match as_ with
  | [] => match os with [] => [] | _ => [(999%N, 149%N, i)] end
  | a :: ar =>
      let t := take_n (List.length ps) os in
      map (fun law => (149%N, i, law)) (pct_laws (items a) ps (fst t))
      ++ pct_walk ar ps (snd t) (i + 1)%N
  end.
Definition run_pct (pl : pools) (OB : list obs) (j : job) : list (N * N * N) :=
  match j with
  | (_, FPct n ps, w, s) => pct_walk (arrs pl n) ps (decode (P pl) OB w s) 0%N
  | _ => []
  end.

(* ---- explicit cases (random larger inputs, ill-typed calls): the arguments
   are written out; reported as (fid, index, 900) *)
Fixpoint walk_explicit (ok : N -> list value -> res -> bool) (E : list (N * list value))
                       (os : list res) (i : N) : list (N * N * N) :=
  match E, os with
  | [], [] => []
  | (fid, args) :: er, o :: orr =>
      let rest := walk_explicit ok er orr (i + 1)%N in
      if ok fid args o then rest else (fid, i, 900%N) :: rest
  | _, _ => [(999%N, 0%N, i)]
  end.
(* explicit PERCENTILE law cases: (array, percentages) *)
Fixpoint pct_explicit (E : list (list value * list Z)) (os : list res) (i : N) : list (N * N * N) :=
  match E with
  | [] => match os with [] => [] | _ => [(999%N, 149%N, i)] end
  | (a, ps) :: er =>
      let t := take_n (List.length ps) os in
      map (fun law => (149%N, i, (law + 10)%N)) (pct_laws a ps (fst t))
      ++ pct_explicit er (snd t) (i + 1)%N
  end.

(* ------------------------------------------------------------------ *)
Definition mismatches (pl : pools) (OB : list obs) (jobs : list job)
                      (E : list (N * list value)) (ew : N) (es : list string)
                      (PE : list (list value * list Z)) (pes : list string) : list (N * N * N) :=
  run_jobs verdict_ok pl OB jobs 0%N
  ++ flat_map (run_pct pl OB) jobs
  ++ walk_explicit verdict_ok E (decode (P pl) OB ew es) 0%N
  ++ pct_explicit PE (decode (P pl) OB ew pes) 0%N.

Definition drift (pl : pools) (OB : list obs) (jobs : list job)
                 (E : list (N * list value)) (ew : N) (es : list string) : list (N * N * N) :=
  run_jobs mirror_ok pl OB jobs 0%N
  ++ walk_explicit mirror_ok E (decode (P pl) OB ew es) 0%N.
