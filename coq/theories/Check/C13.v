(* Check/C13.v — correspondence check for C13 (cancellation).  Each case is a
   program run by the implementation with its context cancelled inside the k-th
   instrumented call (or before the run starts); the model runs the same
   program with the specified (strict) cancellation semantics.  Compared: the
   outcome class, the value when there is one, and the sequence of instrumented
   calls (so a call that starts after the cancellation, or a missing error
   when evaluation was cut short, is a mismatch).
   kinds: 0 value, 1 call sequence, 2 outcome class, 100/101 skipped. *)
From Ferret Require Import Eval Check.C02.
From Ferret Require Export Check.Common.

(* cancel: None = context cancelled before Run; Some k = inside the k-th call *)
Definition check_case (i : N) (c : program * list (name * value) * option N * obs) : list (N * N * N) :=
  let '(p, params, k, o) := c in
  let w0 := match k with
            | None => init_world params true None
            | Some k' => init_world params false (Some k')
            end in
  let '(r, w) := run_body check_fuel p w0 in
  let tr := call_events w in
  match r with
  | OutOfDomain => [(100%N, i, 0%N)]
  | OutOfFuel => [(101%N, i, 0%N)]
  | Ok v =>
      match o with
      | OVal v' tr' =>
          (if vcompare v v' =? 0 then [] else [(0%N, i, 0%N)]) ++
          (if trace_agree tr tr' then [] else [(1%N, i, 0%N)])
      | _ => [(2%N, i, 0%N)]
      end
  | _ =>
      match o with
      | OErr tr' => if trace_agree tr tr' then [] else [(1%N, i, 1%N)]
      | _ => [(2%N, i, 1%N)]
      end
  end.
Fixpoint mism_from (i : N) cs : list (N * N * N) :=
  match cs with
  | [] => []
  | c :: r => check_case i c ++ mism_from (i + 1)%N r
  end.
Definition mismatches cs := mism_from 0%N cs.

(* ---- WAITFOR EVENT scripts: the model (Waitfor.v) decides the outcome *)
From Ferret Require Import Waitfor.
Inductive wobs := WOVal (v : Z) | WOErr.
Definition wcheck (i : N) (c : bool * script * option Z * Z * wobs * nat * nat) : list (N * N * N) :=
  let '(subf, s, fmin, deadline, o, subs, closes) := c in
  let filter := match fmin with Some m => fun v => m <=? v | None => fun _ => true end in
  let r := waitfor subf s filter deadline in
  (match w_res r, o with
   | WROk v, WOVal v' => if v =? v' then [] else [(10%N, i, 0%N)]
   | WRError, WOErr | WRTimeout, WOErr => []
   | _, _ => [(10%N, i, 1%N)]
   end) ++
  (if (w_subs r =? subs)%nat && (w_closes r =? closes)%nat then [] else [(11%N, i, 0%N)]).
Fixpoint wmism_from (i : N) cs : list (N * N * N) :=
  match cs with
  | [] => []
  | c :: r => wcheck i c ++ wmism_from (i + 1)%N r
  end.
Definition wmismatches cs := wmism_from 0%N cs.
