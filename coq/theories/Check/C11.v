(* Check/C11.v — correspondence check for C11.  The harness sends, per world
   (one compiler configuration): a name book, the pre-registered names, the
   registration calls it made with their observed outcome, the observed
   RegisteredFunctions(), histories of Compile calls with the outcome observed
   on the shared compiler and on a fresh identically configured compiler, and
   concurrent runs.  [mismatches] lists every place where an observation
   differs from what [compile_spec] / [register] say. *)
From Ferret Require Import Registry.
From Ferret Require Export Check.Common.

(* a registration call: c.Namespace(p1).Namespace(p2)....RegisterFunction(nm, f) *)
Inductive regop :=
| Reg (path : list N) (nm : N) (f : fid) (ok : bool)
| Rem (path : list N) (nm : N).

(* query as indices into the name book *)
Definition cq := (bool * list N * list N)%type.
(* observation: class 0 compiled (ids = what each call returned when the program ran),
   1 compile error, 2 panic escaped, 3 compiled but the run failed,
   4 compiled, resolved functions not observable (real stdlib) *)
Definition obs := (N * list N)%type.

Record world := World {
  w_names : list name;
  w_base : list name;                         (* registered before the ops, fid = 100000 + position *)
  w_ops : list regop;
  w_registered : list name;                   (* RegisteredFunctions() after the ops *)
  w_hist : list (N * list (cq * obs * obs) * list name * list name);
      (* history id, calls (query, shared, fresh), names gained, names lost *)
  w_conc : list (N * list (list (cq * obs)))  (* run id, per thread: (query, observed) *)
}.

Definition nm_of (nb : list name) (i : N) : name := nth (N.to_nat i) nb [].
Definition to_query (nb : list name) (q : cq) : query :=
  let '(ok, us, cs) := q in Query ok (map (nm_of nb) us) (map (nm_of nb) cs).
Definition container (nb : list name) (path : list N) : name :=
  fold_left (fun ns i => sub_namespace ns (nm_of nb i)) path [].

Fixpoint base_table (l : list name) (i : N) : table :=
  match l with [] => [] | n :: r => (n, (100000 + i)%N) :: base_table r (i + 1)%N end.

Fixpoint run_ops (nb : list name) (ops : list regop) (t : table) (w j : N)
  : table * list (N * N * N) :=
  match ops with
  | [] => (t, [])
  | Reg p nm f ok :: r =>
      match register t (container nb p) (nm_of nb nm) f with
      | Some t' => let (t2, ms) := run_ops nb r t' w (j + 1)%N in
                   (t2, if ok then ms else (3%N, w, j) :: ms)
      | None => let (t2, ms) := run_ops nb r t w (j + 1)%N in
                (t2, if ok then (3%N, w, j) :: ms else ms)
      end
  | Rem p nm :: r => run_ops nb r (Registry.remove t (container nb p) (nm_of nb nm)) w (j + 1)%N
  end.

Definition subset (a b : list name) : bool := forallb (fun x => existsb (bytes_eqb x) b) a.

Fixpoint ids_eqb (a b : list N) : bool :=
  match a, b with
  | [], [] => true
  | x :: a', y :: b' => (x =? y)%N && ids_eqb a' b'
  | _, _ => false
  end.
Definition obs_match (p : result) (o : obs) : bool :=
  let (cls, ids) := o in
  match p with
  | Compiled fs => ((cls =? 0)%N && ids_eqb fs ids) || (cls =? 4)%N
  | CompileError => (cls =? 1)%N
  end.

(* kind 0: outcome on the shared compiler differs from the specification
   kind 1: outcome on a fresh compiler differs from the specification *)
Fixpoint hist_mism (nb : list name) (t : table) (h : list (cq * obs * obs)) (hid j : N)
  : list (N * N * N) :=
  match h with
  | [] => []
  | (q, so, fo) :: r =>
      let p := fst (compile_spec t (to_query nb q)) in
      (if obs_match p so then [] else [(0%N, hid, j)]) ++
      (if obs_match p fo then [] else [(1%N, hid, j)]) ++
      hist_mism nb t r hid (j + 1)%N
  end.

(* kind 5: outcome of a call issued from a concurrent goroutine differs *)
Fixpoint thread_mism (nb : list name) (t : table) (h : list (cq * obs)) (rid j : N)
  : list (N * N * N) :=
  match h with
  | [] => []
  | (q, o) :: r =>
      (if obs_match (fst (compile_spec t (to_query nb q))) o then [] else [(5%N, rid, j)]) ++
      thread_mism nb t r rid (j + 1)%N
  end.
Fixpoint threads_mism nb t (ths : list (list (cq * obs))) (rid k : N) : list (N * N * N) :=
  match ths with
  | [] => []
  | h :: r => thread_mism nb t h rid (k * 100)%N ++ threads_mism nb t r rid (k + 1)%N
  end.

Definition world_mism (w : world) (wi : N) : list (N * N * N) :=
  let nb := w_names w in
  let (t, ms) := run_ops nb (w_ops w) (base_table (w_base w) 0%N) wi 0%N in
  ms ++
  (* kind 4: RegisteredFunctions() is not the key set of the model's table *)
  (if subset (names t) (w_registered w) && subset (w_registered w) (names t) then [] else [(4%N, wi, 0%N)]) ++
  flat_map (fun '(hid, calls, gained, lost) =>
              hist_mism nb t calls hid 0%N ++
              (* kind 2: the registry after the history is not the registry before it *)
              match gained, lost with [], [] => [] | _, _ => [(2%N, hid, 0%N)] end) (w_hist w) ++
  flat_map (fun '(rid, ths) => threads_mism nb t ths rid 0%N) (w_conc w).

Fixpoint worlds_mism (ws : list world) (wi : N) : list (N * N * N) :=
  match ws with
  | [] => []
  | w :: r => world_mism w wi ++ worlds_mism r (wi + 1)%N
  end.
Definition mismatches (first : N) (ws : list world) : list (N * N * N) := worlds_mism ws first.
