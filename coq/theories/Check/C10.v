(* Check/C10.v — correspondence check for C10.
   Part 1: per program (as a shape over a name book) the observed
   Program.Params() and, per set of supplied names, whether Run refused (and
   the names its error lists) or started.
   Part 2: per Go value the FQL value values.Parse returned, the value the
   query saw for @p, and the decoded JSON of RETURN @p. *)
From Ferret Require Import Params.
From Ferret Require Export Check.Common.

(* observation of one Run: class 0 started, 1 refused with these names,
   2 refused / failed before start without a parameter list, 3 panic escaped *)
Definition robs := (N * list N)%type.
Definition prog_case := (shape * bool * list N * list (list N * robs))%type.

Definition nm_of (nb : list bytes) (i : N) : bytes := nth (N.to_nat i) nb [].
Definition subset (a b : list bytes) : bool := forallb (fun x => existsb (bytes_eqb x) b) a.
Definition set_eqb (a b : list bytes) : bool := subset a b && subset b a.

Definition run_ok (nb : list bytes) (p : shape) (supplied : list N) (o : robs) : bool :=
  let (cls, ns) := o in
  match validate p (map (nm_of nb) supplied) with
  | Started => (cls =? 0)%N
  | Refused ms => (cls =? 1)%N && set_eqb ms (map (nm_of nb) ns)
  end.

Fixpoint runs_mism nb p (rs : list (list N * robs)) (i j : N) : list (N * N * N) :=
  match rs with
  | [] => []
  | (sup, o) :: r =>
      (if run_ok nb p sup o then [] else [(1%N, i, j)]) ++ runs_mism nb p r i (j + 1)%N
  end.

Fixpoint progs_mism nb (ps : list prog_case) (i : N) : list (N * N * N) :=
  match ps with
  | [] => []
  | (p, compiled, params, rs) :: r =>
      (if compiled then
         (if set_eqb (params_of p) (map (nm_of nb) params) then [] else [(0%N, i, 0%N)]) ++
         runs_mism nb p rs i 0%N
       else [(2%N, i, 0%N)]) ++ progs_mism nb r (i + 1)%N
  end.

Inductive vobs := OV (v : value) | OP | OE.
Definition val_case := (goval * vobs * vobs * vobs)%type.

Definition same (e : value) (o : vobs) : bool :=
  match o with OV v => struct_eqb e v | _ => false end.
Definition jsame (e : value) (o : vobs) : bool :=
  match o with OV v => json_match e v | _ => false end.

Fixpoint vals_mism (vs : list val_case) (i : N) : list (N * N * N) :=
  match vs with
  | [] => []
  | (g, op, os, oj) :: r =>
      (if supportedb g then
         let e := expected g in
         (if same e op then [] else [(3%N, i, 0%N)]) ++
         (if same e os then [] else [(4%N, i, 0%N)]) ++
         (if jsame e oj then [] else [(5%N, i, 0%N)])
       else [(8%N, i, 0%N)]) ++ vals_mism r (i + 1)%N
  end.

Definition mismatches (nb : list bytes) (first_prog : N) (ps : list prog_case)
                      (first_val : N) (vs : list val_case) : list (N * N * N) :=
  progs_mism nb ps first_prog ++ vals_mism vs first_val.
