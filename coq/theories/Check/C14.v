(* Check/C14.v — correspondence check for C14 (and the run wrapper of C01):
   programs that bind tracked closable values, run with a failure injected at
   the k-th instrumented call (error, panic of three kinds, cancellation) or
   none.  Compared with RunApi.run_api: the result class (and value), the
   sequence of closed ids, and that nothing of evaluation or serialisation
   follows the first close.
   kinds: 0 value, 2 result class, 3 closed ids differ, 4 closed too early,
   100/101 skipped. *)
From Ferret Require Import RunApi.
From Ferret Require Export Check.Common.

Inductive inj := INone | IPre | ICancel (k : N) | IFail (k kind : N).
Inductive aobs := AOJson (v : value) | AOErr | AONilNil | AOEscaped | AOCompileErr.

Fixpoint ids_eqb (a b : list Z) : bool :=
  match a, b with
  | [], [] => true
  | x :: a', y :: b' => (x =? y) && ids_eqb a' b'
  | _, _ => false
  end.

Definition world_of (params : list (name * value)) (j : inj) : world :=
  match j with
  | INone => init_world params false None
  | IPre => init_world params true None
  | ICancel k => init_world params false (Some k)
  | IFail k kind => with_fail_at (init_world params false None) k kind
  end.

Definition check_case (i : N) (c : program * list (name * value) * inj * aobs * list Z * bool) : list (N * N * N) :=
  let '(p, params, j, o, closed, last_ok) := c in
  let '(r, h) := run_api 400 p (world_of params j) in
  match r with
  | AUndefined => [(100%N, i, 0%N)]
  | _ =>
      (match r, o with
       | AJson v, AOJson v' => if vcompare v v' =? 0 then [] else [(0%N, i, 0%N)]
       | AError, AOErr => []
       | _, _ => [(2%N, i, 0%N)]
       end) ++
      (if ids_eqb (close_ids h) closed then [] else [(3%N, i, 0%N)]) ++
      (if last_ok then [] else [(4%N, i, 0%N)])
  end.
Fixpoint mism_from (i : N) cs : list (N * N * N) :=
  match cs with
  | [] => []
  | c :: r => check_case i c ++ mism_from (i + 1)%N r
  end.
Definition mismatches cs := mism_from 0%N cs.
