(* Check/C06.v — correspondence check for C06 (surface syntax never changes
   the meaning of a query).  For every case the harness sends the canonical
   text of a program, optionally the tree the text was printed from, and a
   list of alternative renderings of the same program (letter case of keywords
   and function names, layout and comments, redundant parentheses, quote
   styles), each with the implementation's verdict "the outcome of Run equals
   the outcome of the canonical text".  The model lexes and parses all texts.

   mismatch kinds (i = case, j = 0 canonical / k+1 alternative k):
     0  model: same program — implementation: different outcome
        (surface syntax changed the meaning)
     1  model: the rendering is not the same program (different tree or not
        well-formed)
     4  the reference parser does not read the canonical text as the tree it
        was printed from (names / string contents / structure)
     5  the token kinds of the lexers differ
     6  the implementation's result differs from the value the program
        denotes by construction (string contents, names)
     7  as 0, and the rendering puts '(' directly after FILTER / SORT where
        the canonical text does not (recorded finding)
   (an out-of-fuel run of the reference parser counts as "not well-formed"
   here and so shows up as kind 1 or 4; it never happens) *)
From Ferret Require Import Render Check.C05.
From Ferret Require Export Check.Common.

Fixpoint paren_after_clause_kw (ts : toks) : bool :=
  match ts with
  | (KFilter, _) :: (KLParen, _) :: _ => true
  | (KSort, _) :: (KLParen, _) :: _ => true
  | _ :: r => paren_after_clause_kw r
  | [] => false
  end.

(* two or more '?' after ')' that the next tokens do not settle: the text has several
   readings under which it parses, and which one the generated parser takes is modelled
   by a preference order validated for one such token only.  A disagreement between the
   reference parser and the generator's tree on such a text is counted (kind 102), not
   reported, as long as the implementation gives the same outcome for both texts; a
   difference in the implementation's outcomes is always reported. *)
Definition several_undecided (ts : toks) : bool := (2 <=? List.length (q_candidates ts))%nat.

Definition same_program (p q : option program) : bool :=
  match p, q with
  | Some a, Some b => program_eqb a b
  | _, _ => false
  end.

Definition c06case : Type :=
  (bytes * string * option program * N * list (bytes * string * bool))%type.

Fixpoint check_alts (i j : N) (tc : toks) (pc : option program) (alts : list (bytes * string * bool))
  : list (N * N * N) :=
  match alts with
  | [] => []
  | (q, ks, same_impl) :: r =>
      match lex q with
      | None => [(5%N, i, j)]
      | Some ts =>
          (if kinds_agree ts ks then [] else [(5%N, i, j)]) ++
          (if same_program pc (parse_program ts) then
             if same_impl then []
             else if paren_after_clause_kw ts && negb (paren_after_clause_kw tc) then [(7%N, i, j)]
             else [(0%N, i, j)]
           else if same_impl && (several_undecided tc || several_undecided ts) then [(102%N, i, j)]
           else [(1%N, i, j)])
      end ++ check_alts i (j + 1)%N tc pc r
  end.

Definition check_case (i : N) (c : c06case) : list (N * N * N) :=
  let '(q, ks, ast, expect, alts) := c in
  match lex q with
  | None => [(5%N, i, 0%N)]
  | Some tc =>
      let pc := parse_program tc in
      (if kinds_agree tc ks then [] else [(5%N, i, 0%N)]) ++
      match ast with
      | Some a => if same_program pc (Some a) then []
                  else if several_undecided tc then [(102%N, i, 0%N)]
                  else [(4%N, i, 0%N)]
      | None => match pc with Some _ => [] | None => [(1%N, i, 0%N)] end
      end ++
      (if (expect =? 2)%N then [(6%N, i, 0%N)] else []) ++
      check_alts i 1%N tc pc alts
  end.

Fixpoint cases_from (i : N) (cs : list c06case) : list (N * N * N) :=
  match cs with
  | [] => []
  | c :: r => check_case i c ++ cases_from (i + 1)%N r
  end.
Definition mismatches (cs : list c06case) : list (N * N * N) := cases_from 0%N cs.
