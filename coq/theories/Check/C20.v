(* Check/C20.v — correspondence check for C20.  The harness records, for every
   run of the real events.Loop, the totally ordered history of instrumented
   ticks (operation start / end, Ready, Recv, handler call, cancel, Close) and
   sends it as one fixed-width string per history; [mismatches] decodes it into
   the model's observable records (timestamp = position) and evaluates the
   proved decision procedure of the delivery specification (Loop.history_ok's
   clauses) plus the two real-time readings that are known-finding classes.

   record = 10 characters, every digit is (code - 48), two-character fields are
   base 64, most significant first:
     tag a b1 b2 op ev x1 x2 r1 r2
     S  RStart  g=a i=b o=(op,ev,x)         E  REnd  g=a i=b o=(op,ev,x) res=r
     Y  RReady  c=a k=b                     V  RRecv c=a k=b ev
     D  RDeliver c=a k=b ev l=x kd=op       C  RCancel        X  RClose c=a
   op: 0 add persistent, 1 add one-shot, 2 remove (x = listener), 3 count *)
From Ferret Require Import Loop.
From Ferret Require Export Check.Common.
Local Open Scope N_scope.

Definition dg (c : ascii) : N := N_of_ascii c - 48.
Definition dg2 (a b : ascii) : N := dg a * 64 + dg b.

Definition mk_op (o ev x : N) : op :=
  if o =? 0 then OAdd ev Persistent else if o =? 1 then OAdd ev Once
  else if o =? 2 then ORemove ev x else OCount ev.

Definition mk_rec (tag : ascii) (a b o ev x r : N) : option rec :=
  let t := N_of_ascii tag in
  if t =? 83 then Some (RStart (N.to_nat a) b (mk_op o ev x))
  else if t =? 69 then Some (REnd (N.to_nat a) b (mk_op o ev x) r)
  else if t =? 89 then Some (RReady (N.to_nat a) b)
  else if t =? 86 then Some (RRecv (N.to_nat a) b ev)
  else if t =? 68 then Some (RDeliver (N.to_nat a) b ev x (if o =? 1 then Once else Persistent))
  else if t =? 67 then Some RCancel
  else if t =? 88 then Some (RClose (N.to_nat a))
  else None.

(* None = malformed *)
Fixpoint decode (s : string) (t : N) : option history :=
  match s with
  | EmptyString => Some []
  | String tag (String a (String b1 (String b2 (String o (String ev (String x1 (String x2 (String r1 (String r2 rest))))))))) =>
      match mk_rec tag (dg a) (dg2 b1 b2) (dg o) (dg ev) (dg2 x1 x2) (dg2 r1 r2), decode rest (t + 1) with
      | Some r, Some h => Some ((t, r) :: h)
      | _, _ => None
      end
  | _ => None
  end.

Definition viol (kind i : N) (ok : N * rec -> bool) (h : history) : list (N * N * N) :=
  map (fun tr => (kind, i, fst tr)) (bad ok h).

(* kinds: 1 at-most-once, 2 must-deliver, 3 must-not-deliver (removed), 4 one-shot called
   by a later dispatch of the same source, 5 source order, 6 wrong listener, 7 close;
   8 one-shot called more than once overall, 9 called after its removal returned
   (8, 9: the real-time readings refuted by the model; known-finding classes);
   10 malformed history; 11 Listeners() returned fewer than the listeners certainly registered *)
Definition check_history (i : N) (s : string) : list (N * N * N) :=
  match decode s 0 with
  | None => [(10, i, 0)]
  | Some h =>
      viol 1 i (ok_amo h) h ++ viol 2 i (ok_must h) h ++ viol 3 i (ok_mustnot h) h ++
      viol 4 i (ok_once h) h ++ viol 5 i (ok_order h) h ++ viol 6 i (ok_right h) h ++
      viol 7 i (ok_close h) h ++ viol 11 i (ok_count h) h ++
      (* 8 is reported only where 4 is not (same-source repeats are violations of the spec) *)
      viol 8 i (fun tr => ok_once_total h tr || negb (ok_once h tr)) h ++
      viol 9 i (ok_after_removal h) h
  end.

Fixpoint mism_from (i : N) (hs : list string) : list (N * N * N) :=
  match hs with
  | [] => []
  | s :: r => check_history i s ++ mism_from (i + 1) r
  end.

Definition mismatches (hs : list string) : list (N * N * N) := mism_from 0 hs.

