(* Check/C19.v — correspondence check for C19.  The harness sends the generated
   configurations together with what the loopback server recorded / what the
   query saw; [mismatches] recomputes each observation from Http.v. *)
From Ferret Require Import Http.
From Ferret Require Export Check.Common.

Fixpoint bl_eqb (a b : list bytes) : bool :=
  match a, b with
  | [], [] => true
  | x :: a', y :: b' => bytes_eqb x y && bl_eqb a' b'
  | _, _ => false
  end.
Fixpoint ck_eqb (a b : cookies) : bool :=
  match a, b with
  | [], [] => true
  | (k, v) :: a', (k', v') :: b' => bytes_eqb k k' && bytes_eqb v v' && ck_eqb a' b'
  | _, _ => false
  end.
Definition leb_ck (a b : bytes * bytes) : bool := match lexcmp (fst a) (fst b) with Gt => false | _ => true end.
Definition sort_ck (c : cookies) : cookies := isort leb_ck c.

(* ---------- kind 1..4: the request as recorded by the server *)
Record reqcase := mkReq {
  q_dopts : list dopt; q_headers : list (bytes * hval);
  q_dcookies : cookies; q_pcookies : cookies; q_dua : bytes; q_pua : bytes;
  q_names : list bytes;                 (* canonical names looked at *)
  o_headers : list (list bytes);        (* values received per name, [] when absent *)
  o_cookies : cookies;                  (* sorted by name *)
  o_ua : bytes;                         (* "" when the Go default agent was sent *)
  o_requests : N }.

Fixpoint hdr_mism (c : reqcase) (names : list bytes) (obs : list (list bytes)) (i j : N) : list (N * N * N) :=
  match names, obs with
  | n :: names', o :: obs' =>
      (if bl_eqb o (wire_spec (cfg_of_dopts (q_dopts c)) (cfg_of_query (q_headers c)) n) then []
       else if bl_eqb o (wire_pinned (q_dopts c) (q_headers c) n) then [(101, i, j)%N]
       else [(1, i, j)%N]) ++ hdr_mism c names' obs' i (j + 1)%N
  | [], [] => []
  | _, _ => [(99, i, j)%N]
  end.

Definition req_mism (c : reqcase) (i : N) : list (N * N * N) :=
  hdr_mism c (q_names c) (o_headers c) i 0%N ++
  (if ck_eqb (o_cookies c) (sort_ck (cookies_spec (q_dcookies c) (q_pcookies c))) then [] else [(2, i, 0)%N]) ++
  (if bytes_eqb (o_ua c) (ua_spec (q_dua c) (q_pua c)) then [] else [(3, i, 0)%N]) ++
  (if (o_requests c =? 1)%N then [] else [(4, i, 0)%N]).

(* ---------- kind 5: acceptance of every status of a range under one rule set;
   obs is a string of T (accepted) / F (rejected with the status as error) /
   E (any other failure), one per status starting at [from]; the URL of a
   status is the prefix followed by its three decimal digits *)
Definition stcase := (list rule * list rule * bytes * Z * string)%type.

Definition dec3 (code : Z) : bytes :=
  [Z.to_N (48 + code / 100 mod 10); Z.to_N (48 + code / 10 mod 10); Z.to_N (48 + code mod 10)].

Fixpoint st_row (qr dr : list rule) (prefix : bytes) (code : Z) (obs : string) (i j : N) : list (N * N * N) :=
  match obs with
  | EmptyString => []
  | String ch r =>
      (if ascii_eqb ch "E"%char then [(5, i, j)%N]
       else if Bool.eqb (ascii_eqb ch "T"%char) (accepted code qr dr (prefix ++ dec3 code)) then []
       else [(5, i, j)%N]) ++
      st_row qr dr prefix (code + 1) r i (j + 1)%N
  end.
Definition st_mism (c : stcase) (i : N) : list (N * N * N) :=
  match c with (qr, dr, prefix, from, obs) => st_row qr dr prefix from obs i 0%N end.

(* ---------- kind 6..8: what the query sees of the response *)
Record respcase := mkRC {
  s_resp : response;
  s_names : list bytes;
  p_status : Z;
  p_headers : list (bytes * bytes);     (* per name: first value, all values joined with ", " *)
  p_cookies : cookies }.

Fixpoint rh_mism (r : response) (names : list bytes) (obs : list (bytes * bytes)) (i j : N) : list (N * N * N) :=
  match names, obs with
  | n :: names', (f, a) :: obs' =>
      (let e := reported_header r n in
       if bytes_eqb f (fst e) && bytes_eqb a (snd e) then [] else [(7, i, j)%N]) ++ rh_mism r names' obs' i (j + 1)%N
  | [], [] => []
  | _, _ => [(99, i, j)%N]
  end.
Definition resp_mism (c : respcase) (i : N) : list (N * N * N) :=
  (if p_status c =? r_status (s_resp c) then [] else [(6, i, 0)%N]) ++
  rh_mism (s_resp c) (s_names c) (p_headers c) i 0%N ++
  (if ck_eqb (p_cookies c) (sort_ck (reported_cookies (s_resp c))) then [] else [(8, i, 0)%N]).

(* ---------- kind 9: cancellation / deadline on a slow response *)
Definition cancase := (Z * Z * bool)%type.   (* cancel after ms, response after ms, returned early? *)
Definition can_mism (c : cancase) (i : N) : list (N * N * N) :=
  match c with (cm, rm, early) => if Bool.eqb early (returns_early_spec cm rm) then [] else [(9, i, 0)%N] end.

Fixpoint idx_mism {A} (f : A -> N -> list (N * N * N)) (l : list A) (i : N) : list (N * N * N) :=
  match l with
  | [] => []
  | x :: r => f x i ++ idx_mism f r (i + 1)%N
  end.

(* ---------- kind 11..14: histories of requests through one driver instance;
   j = 100 * (position of the request in the history) + (index of the header name) *)
Record hreq := mkHR {
  hr_headers : list (bytes * hval); hr_cookies : cookies; hr_ua : bytes;   (* the request's own parameters *)
  ho_headers : list (list bytes); ho_cookies : cookies; ho_ua : bytes; ho_requests : N }.
Record histcase := mkHist {
  hd_dopts : list dopt; hd_cookies : cookies; hd_ua : bytes; hd_names : list bytes; hd_reqs : list hreq }.

Fixpoint hh_mism (exp obs : list (list bytes)) (i j : N) : list (N * N * N) :=
  match exp, obs with
  | e :: exp', o :: obs' => (if bl_eqb o e then [] else [(11, i, j)%N]) ++ hh_mism exp' obs' i (j + 1)%N
  | [], [] => []
  | _, _ => [(99, i, j)%N]
  end.

Fixpoint hreqs_mism (exp : list sent) (reqs : list hreq) (i k : N) : list (N * N * N) :=
  match exp, reqs with
  | (eh, ec, eu) :: exp', r :: reqs' =>
      hh_mism eh (ho_headers r) i (100 * k)%N ++
      (if ck_eqb (ho_cookies r) (sort_ck ec) then [] else [(12, i, 100 * k)%N]) ++
      (if bytes_eqb (ho_ua r) eu then [] else [(13, i, 100 * k)%N]) ++
      (if (ho_requests r =? 1)%N then [] else [(14, i, 100 * k)%N]) ++
      hreqs_mism exp' reqs' i (k + 1)%N
  | [], [] => []
  | _, _ => [(99, i, 100 * k)%N]
  end.

Definition hist_mism (c : histcase) (i : N) : list (N * N * N) :=
  hreqs_mism
    (history_spec (hd_names c) (mkDrv (cfg_of_dopts (hd_dopts c)) (hd_cookies c) (hd_ua c))
       (map (fun r => mkPar (cfg_of_query (hr_headers r)) (hr_cookies r) (hr_ua r)) (hd_reqs c)))
    (hd_reqs c) i 0%N.

(* rbase = index of the first request case of this file *)
Definition mismatches (rbase : N) (R : list reqcase) (S : list stcase) (P : list respcase) (C : list cancase)
    (H : list histcase) : list (N * N * N) :=
  idx_mism req_mism R rbase ++ idx_mism st_mism S 0%N ++ idx_mism resp_mism P 0%N ++ idx_mism can_mism C 0%N ++
  idx_mism hist_mism H 0%N.

(* short constructors for the case files *)
Fixpoint gp (s : string) : list gtok :=
  match s with
  | EmptyString => []
  | String c r => (if ascii_eqb c "*"%char then GStar else if ascii_eqb c "?"%char then GAny else GLit (N_of_ascii c)) :: gp r
  end.
Definition b (s : string) : bytes := bs s.
Definition bl (l : list string) : list bytes := map bs l.
Definition ck (l : list (string * string)) : cookies := map (fun kv => (bs (fst kv), bs (snd kv))) l.
Definition dh (k : string) (vs : list string) : dopt := DHeader (bs k) (map bs vs).
Definition ds (k v : string) : dopt := DSet (bs k) (bs v).
Definition one (k v : string) : bytes * hval := (bs k, One (bs v)).
Definition many (k : string) (vs : list string) : bytes * hval := (bs k, Many (map bs vs)).
Definition rl (code : Z) (pat : string) : rule := (code, Some (gp pat)).
Definition rc (code : Z) : rule := (code, None).
Definition hs (l : list (string * list string)) : hstore := map (fun kv => (bs (fst kv), map bs (snd kv))) l.
Definition pp (l : list (string * string)) : list (bytes * bytes) := map (fun kv => (bs (fst kv), bs (snd kv))) l.
