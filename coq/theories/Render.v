(* Render.v — the surface of a query as data.
   1. structural equality of programs ([program_eqb]);
   2. the canonical printer program -> token list with minimal parentheses
      (the discipline of harness/fqlast: a sub-expression is parenthesised
      exactly when its precedence level is below what its position requires),
      parameterised by [extra], which asks for redundant parentheses around
      any sub-expression that stands in an `expression` position;
   3. renderings of a token list as text: [render lay ts] writes the token
      texts with the layout string [lay i] (white space, line terminators,
      comments, or nothing) in front of token i and [lay n] at the end;
      [recase] changes the letter case of keyword tokens.
   Definitions only; lemmas in Proofs/RenderProofs.v. *)
From Ferret Require Export Parser.
Local Open Scope N_scope.

(* -------------------------------------------------- structural equality *)
Definition unop_eqb (a b : unop) : bool :=
  match a, b with UNot, UNot | UNeg, UNeg | UPos, UPos => true | _, _ => false end.
Definition logop_eqb (a b : logop) : bool :=
  match a, b with LAnd, LAnd | LOr, LOr => true | _, _ => false end.
Definition cmpop_eqb (a b : cmpop) : bool :=
  match a, b with
  | CEq, CEq | CNe, CNe | CLt, CLt | CLe, CLe | CGt, CGt | CGe, CGe => true
  | _, _ => false
  end.
Definition mathop_eqb (a b : mathop) : bool :=
  match a, b with
  | MAdd, MAdd | MSub, MSub | MMul, MMul | MDiv, MDiv | MMod, MMod => true
  | _, _ => false
  end.
Definition quant_eqb (a b : quant) : bool :=
  match a, b with QAll, QAll | QAny, QAny | QNone, QNone => true | _, _ => false end.
Definition qcmp_eqb (a b : qcmp) : bool :=
  match a, b with
  | QCmp x, QCmp y => cmpop_eqb x y
  | QIn x, QIn y => Bool.eqb x y
  | _, _ => false
  end.
Definition optname_eqb (a b : option name) : bool :=
  match a, b with
  | Some x, Some y => bytes_eqb x y
  | None, None => true
  | _, _ => false
  end.

Fixpoint expr_eqb (a b : expr) {struct a} : bool :=
  match a, b with
  | ENone, ENone => true
  | EBool x, EBool y => Bool.eqb x y
  | EInt x, EInt y => (x =? y)%Z
  | EFloat x, EFloat y => x =? y
  | EStr x, EStr y => bytes_eqb x y
  | EArr x, EArr y =>
      (fix go (x y : list expr) : bool :=
         match x, y with
         | [], [] => true
         | p :: x', q :: y' => expr_eqb p q && go x' y'
         | _, _ => false
         end) x y
  | EObj x, EObj y =>
      (fix go (x y : list prop) : bool :=
         match x, y with
         | [], [] => true
         | p :: x', q :: y' => prop_eqb p q && go x' y'
         | _, _ => false
         end) x y
  | EVar x, EVar y => bytes_eqb x y
  | EParam x, EParam y => bytes_eqb x y
  | EUn o e, EUn o' e' => unop_eqb o o' && expr_eqb e e'
  | ELog o p q, ELog o' p' q' => logop_eqb o o' && expr_eqb p p' && expr_eqb q q'
  | ECond c t f, ECond c' t' f' =>
      expr_eqb c c'
      && match t, t' with
         | Some x, Some y => expr_eqb x y
         | None, None => true
         | _, _ => false
         end
      && expr_eqb f f'
  | ECmp o p q, ECmp o' p' q' => cmpop_eqb o o' && expr_eqb p p' && expr_eqb q q'
  | EIn n p q, EIn n' p' q' => Bool.eqb n n' && expr_eqb p p' && expr_eqb q q'
  | EQuant k c p q, EQuant k' c' p' q' =>
      quant_eqb k k' && qcmp_eqb c c' && expr_eqb p p' && expr_eqb q q'
  | ELike n p q, ELike n' p' q' => Bool.eqb n n' && expr_eqb p p' && expr_eqb q q'
  | ERegex n p q, ERegex n' p' q' => Bool.eqb n n' && expr_eqb p p' && expr_eqb q q'
  | EMath o p q, EMath o' p' q' => mathop_eqb o o' && expr_eqb p p' && expr_eqb q q'
  | ERange p q, ERange p' q' => expr_eqb p p' && expr_eqb q q'
  | EMember s p, EMember s' p' =>
      expr_eqb s s'
      && (fix go (x y : list seg) : bool :=
            match x, y with
            | [], [] => true
            | p :: x', q :: y' => seg_eqb p q && go x' y'
            | _, _ => false
            end) p p'
  | ECall f x, ECall f' y =>
      bytes_eqb f f'
      && (fix go (x y : list expr) : bool :=
            match x, y with
            | [], [] => true
            | p :: x', q :: y' => expr_eqb p q && go x' y'
            | _, _ => false
            end) x y
  | ESuppress e, ESuppress e' => expr_eqb e e'
  | ESub q, ESub q' => forq_eqb q q'
  | _, _ => false
  end
with prop_eqb (a b : prop) {struct a} : bool :=
  match a, b with
  | PNamed k e, PNamed k' e' => bytes_eqb k k' && expr_eqb e e'
  | PComputed k e, PComputed k' e' => expr_eqb k k' && expr_eqb e e'
  | PShort x, PShort y => bytes_eqb x y
  | _, _ => false
  end
with seg_eqb (a b : seg) {struct a} : bool :=
  match a, b with
  | Seg o e, Seg o' e' => Bool.eqb o o' && expr_eqb e e'
  end
with forq_eqb (a b : forq) {struct a} : bool :=
  match a, b with
  | ForIn v k s bd r, ForIn v' k' s' bd' r' =>
      bytes_eqb v v' && optname_eqb k k' && expr_eqb s s'
      && (fix go (x y : list fclause) : bool :=
            match x, y with
            | [], [] => true
            | p :: x', q :: y' => fclause_eqb p q && go x' y'
            | _, _ => false
            end) bd bd'
      && fret_eqb r r'
  | ForWhile v d c bd r, ForWhile v' d' c' bd' r' =>
      bytes_eqb v v' && Bool.eqb d d' && expr_eqb c c'
      && (fix go (x y : list fclause) : bool :=
            match x, y with
            | [], [] => true
            | p :: x', q :: y' => fclause_eqb p q && go x' y'
            | _, _ => false
            end) bd bd'
      && fret_eqb r r'
  | _, _ => false
  end
with fclause_eqb (a b : fclause) {struct a} : bool :=
  match a, b with
  | CLet x e, CLet x' e' => bytes_eqb x x' && expr_eqb e e'
  | CCall e, CCall e' => expr_eqb e e'
  | CFilter e, CFilter e' => expr_eqb e e'
  | CSort k, CSort k' =>
      (fix go (x y : list (expr * bool)) : bool :=
         match x, y with
         | [], [] => true
         | (p, d) :: x', (q, d') :: y' => expr_eqb p q && Bool.eqb d d' && go x' y'
         | _, _ => false
         end) k k'
  | CLimit o c, CLimit o' c' =>
      match o, o' with
      | Some x, Some y => expr_eqb x y
      | None, None => true
      | _, _ => false
      end && expr_eqb c c'
  | CCollect g t, CCollect g' t' =>
      (fix go (x y : list (name * expr)) : bool :=
         match x, y with
         | [], [] => true
         | (n, p) :: x', (n', q) :: y' => bytes_eqb n n' && expr_eqb p q && go x' y'
         | _, _ => false
         end) g g'
      && ctail_eqb t t'
  | _, _ => false
  end
with ctail_eqb (a b : ctail) {struct a} : bool :=
  match a, b with
  | CTNone, CTNone => true
  | CTInto x p, CTInto x' p' =>
      bytes_eqb x x'
      && match p, p' with
         | Some e, Some e' => expr_eqb e e'
         | None, None => true
         | _, _ => false
         end
  | CTCount x, CTCount x' => bytes_eqb x x'
  | CTAggr s, CTAggr s' =>
      (fix go (x y : list (name * name * list expr)) : bool :=
         match x, y with
         | [], [] => true
         | (n, f, l) :: x', (n', f', l') :: y' =>
             bytes_eqb n n' && bytes_eqb f f'
             && (fix go2 (x y : list expr) : bool :=
                   match x, y with
                   | [], [] => true
                   | p :: x', q :: y' => expr_eqb p q && go2 x' y'
                   | _, _ => false
                   end) l l'
             && go x' y'
         | _, _ => false
         end) s s'
  | _, _ => false
  end
with fret_eqb (a b : fret) {struct a} : bool :=
  match a, b with
  | RReturn d e, RReturn d' e' => Bool.eqb d d' && expr_eqb e e'
  | RFor q, RFor q' => forq_eqb q q'
  | _, _ => false
  end.

Definition stmt_eqb (a b : stmt) : bool :=
  match a, b with
  | SLet x e, SLet x' e' => bytes_eqb x x' && expr_eqb e e'
  | SCall e, SCall e' => expr_eqb e e'
  | _, _ => false
  end.
Fixpoint stmts_eqb (a b : list stmt) : bool :=
  match a, b with
  | [], [] => true
  | x :: a', y :: b' => stmt_eqb x y && stmts_eqb a' b'
  | _, _ => false
  end.
Definition program_eqb (p q : program) : bool :=
  stmts_eqb (p_stmts p) (p_stmts q)
  && match p_ret p, p_ret q with
     | BReturn e, BReturn e' => expr_eqb e e'
     | BFor x, BFor y => forq_eqb x y
     | _, _ => false
     end.

(* ------------------------------------------------------------ printer *)
Definition tk (k : kind) (s : string) : token := (k, bs s).

Definition level (e : expr) : nat :=
  match e with
  | ECond _ _ _ => 1
  | ELog LOr _ _ => 2
  | ELog LAnd _ _ => 3
  | EUn _ _ => 4
  | EInt z => if (z <? 0)%Z then 4 else 12
  | ELike _ _ _ => 5
  | EIn _ _ _ => 6
  | EQuant _ _ _ _ => 7
  | ECmp _ _ _ => 8
  | ERegex _ _ _ => 9
  | EMath MAdd _ _ | EMath MSub _ _ => 10
  | EMath _ _ _ => 11
  | _ => 12
  end%nat.

(* decimal digits of a natural number *)
Fixpoint digits_go (fuel : nat) (n : N) (acc : bytes) : bytes :=
  match fuel with
  | O => acc
  | S f => if n <? 10 then (48 + n) :: acc else digits_go f (n / 10) ((48 + n mod 10) :: acc)
  end.
Definition digits (n : N) : bytes := digits_go (S (N.to_nat (N.log2 n))) n [].

(* the exact decimal expansion of a finite binary64 value >= 0 *)
Definition float_text (b : N) : bytes :=
  let ex := N.land (N.shiftr b 52) 2047 in
  let man := N.land b (N.ones 52) in
  let m := if ex =? 0 then man else 2 ^ 52 + man in
  let ex1 := if ex =? 0 then 1 else ex in
  let e := (Z.of_N ex1 - 1075)%Z in
  if (0 <=? e)%Z then digits (m * 2 ^ Z.to_N e) ++ bs ".0"
  else
    let k := Z.to_N (- e)%Z in
    let ip := m / 2 ^ k in
    let fr := (m mod 2 ^ k) * 5 ^ k in          (* fraction * 10^k *)
    let fd := digits fr in
    digits ip ++ [46] ++ repeat 48 (N.to_nat k - List.length fd) ++ fd.

(* [w] lexes as one word token (identifier or reserved word) *)
Definition is_word_text (w : bytes) : bool :=
  let rs := runes_of w in
  match rs with
  | c :: _ => is_letter (up c) && Nat.eqb (ident_len rs) (List.length rs)
  | [] => false
  end.
Definition word_tok (w : bytes) : token := (word_kind (runes_of w), w).
Definition quote_tok (s : bytes) : token := (KString, 34 :: s ++ [34]).

Definition LP := tk KLParen "(".
Definition RP := tk KRParen ")".
Definition COMMA := tk KComma ",".
Definition wrap (b : bool) (ts : toks) : toks := if b then LP :: ts ++ [RP] else ts.

Definition cmp_tok (o : cmpop) : token :=
  match o with
  | CEq => tk KEq "==" | CNe => tk KNeq "!=" | CLt => tk KLt "<" | CLe => tk KLte "<="
  | CGt => tk KGt ">" | CGe => tk KGte ">="
  end.
Definition math_tok (o : mathop) : token :=
  match o with
  | MAdd => tk KPlus "+" | MSub => tk KMinus "-" | MMul => tk KMulti "*" | MDiv => tk KDiv "/"
  | MMod => tk KMod "%"
  end.
Definition un_tok (o : unop) : token :=
  match o with UNot => tk KNot "NOT" | UNeg => tk KMinus "-" | UPos => tk KPlus "+" end.
Definition quant_tok (q : quant) : token :=
  match q with QAll => tk KAll "ALL" | QAny => tk KAny "ANY" | QNone => tk KNone "NONE" end.
Definition in_toks (neg : bool) : toks :=
  if neg then [tk KNot "NOT"; tk KIn "IN"] else [tk KIn "IN"].
Definition like_toks (neg : bool) : toks :=
  if neg then [tk KNot "NOT"; tk KLike "LIKE"] else [tk KLike "LIKE"].

(* a then-branch is written without parentheses only when it begins with a
   token that can never follow an operand (a string / number / boolean literal,
   '[', '{', '@') or is a plain identifier: after "cond ?" such a token
   settles that the '?' is the ternary's, also when cond ends in ')' where it
   could otherwise be the error operator (x ? -1 : 2 is unambiguous, but
   F() ? -1 : 2 read from the left could start as F()? - 1).  Every other
   then-branch, a nested ternary included, is parenthesised. *)
Definition then_safe (t : expr) : bool :=
  match t with
  | EStr _ | EBool _ | EFloat _ | EArr _ | EObj _ | EParam _ => true
  | EInt z => (0 <=? z)%Z
  | EVar x => match word_kind (runes_of x) with KIdent => true | _ => false end
  | _ => false
  end.

Section Printer.
  Variable extra : expr -> bool.
  Definition needs (m : nat) (x : expr) : bool := (level x <? m)%nat || extra x.

  Fixpoint body (e : expr) : toks :=
    match e with
    | ENone => [tk KNone "NONE"]
    | EBool b => [if b then tk KBool "true" else tk KBool "false"]
    | EInt z => if (z <? 0)%Z then [tk KMinus "-"; (KInt, digits (Z.to_N (- z)))]
                else [(KInt, digits (Z.to_N z))]
    | EFloat b => [(KFloat, float_text b)]
    | EStr s => [quote_tok s]
    | EArr es =>
        tk KLBrack "[" ::
        (fix go (l : list expr) : toks :=
           match l with
           | [] => []
           | [x] => wrap (needs 1 x) (body x)
           | x :: r => wrap (needs 1 x) (body x) ++ COMMA :: go r
           end) es ++ [tk KRBrack "]"]
    | EObj ps =>
        tk KLBrace "{" ::
        (fix go (l : list prop) : toks :=
           match l with
           | [] => []
           | [x] => pr_prop x
           | x :: r => pr_prop x ++ COMMA :: go r
           end) ps ++ [tk KRBrace "}"]
    | EVar x => [word_tok x]
    | EParam x => [tk KParam "@"; word_tok x]
    | EUn o a => un_tok o :: wrap (needs 4 a) (body a)
    | ELog o a b =>
        match o with
        | LOr => wrap (needs 2 a) (body a) ++ tk KOr "OR" :: wrap (needs 3 b) (body b)
        | LAnd => wrap (needs 3 a) (body a) ++ tk KAnd "AND" :: wrap (needs 4 b) (body b)
        end
    | ECond c t f =>
        wrap (needs 1 c) (body c) ++ tk KQuestion "?" ::
        match t with
        | Some t' => wrap (needs 2 t' || negb (then_safe t')) (body t')
        | None => []
        end ++ tk KColon ":" :: wrap (needs 2 f) (body f)
    | ECmp o a b => wrap (needs 8 a) (body a) ++ cmp_tok o :: wrap (needs 9 b) (body b)
    | EIn n a b => wrap (needs 6 a) (body a) ++ in_toks n ++ wrap (needs 7 b) (body b)
    | EQuant q c a b =>
        wrap (needs 7 a) (body a) ++ quant_tok q ::
        match c with QCmp o => [cmp_tok o] | QIn n => in_toks n end ++ wrap (needs 8 b) (body b)
    | ELike n a b => wrap (needs 5 a) (body a) ++ like_toks n ++ wrap (needs 6 b) (body b)
    | ERegex n a b =>
        wrap (needs 9 a) (body a)
        ++ (if n then tk KRegexNotMatch "!~" else tk KRegexMatch "=~") :: wrap (needs 10 b) (body b)
    | EMath o a b =>
        match o with
        | MAdd | MSub => wrap (needs 10 a) (body a) ++ math_tok o :: wrap (needs 11 b) (body b)
        | _ => wrap (needs 11 a) (body a) ++ math_tok o :: wrap (needs 12 b) (body b)
        end
    | ERange a b => body a ++ tk KRange ".." :: body b
    | EMember s p =>
        body s ++
        (fix go (l : list seg) : toks :=
           match l with
           | [] => []
           | x :: r => pr_seg x ++ go r
           end) p
    | ECall f args =>
        word_tok f :: LP ::
        (fix go (l : list expr) : toks :=
           match l with
           | [] => []
           | [x] => wrap (needs 1 x) (body x)
           | x :: r => wrap (needs 1 x) (body x) ++ COMMA :: go r
           end) args ++ [RP]
    | ESuppress a =>
        (* always inside its own parentheses: a bare '?' after ')' is read by
           what follows it *)
        LP :: match a with
              | ECall _ _ => body a
              | _ => LP :: body a ++ [RP]
              end ++ [tk KQuestion "?"; RP]
    | ESub q => LP :: pr_for q ++ [RP]
    end
  with pr_prop (p : prop) : toks :=
    match p with
    | PNamed k e =>
        (if is_word_text k then word_tok k else quote_tok k) :: tk KColon ":" :: wrap (needs 1 e) (body e)
    | PComputed k e =>
        match k with
        | EParam x => tk KParam "@" :: word_tok x :: tk KColon ":" :: wrap (needs 1 e) (body e)
        | _ => tk KLBrack "[" :: wrap (needs 1 k) (body k)
               ++ tk KRBrack "]" :: tk KColon ":" :: wrap (needs 1 e) (body e)
        end
    | PShort x => [word_tok x]
    end
  with pr_seg (s : seg) : toks :=
    match s with
    | Seg o e =>
        let q := if o then [tk KQuestion "?"] else [] in
        match e with
        | EStr n =>
            if is_word_text n then q ++ [tk KDot "."; word_tok n]
            else (if o then [tk KQuestion "?"; tk KDot "."] else [])
                 ++ tk KLBrack "[" :: quote_tok n :: [tk KRBrack "]"]
        | _ => (if o then [tk KQuestion "?"; tk KDot "."] else [])
               ++ tk KLBrack "[" :: wrap (needs 1 e) (body e) ++ [tk KRBrack "]"]
        end
    end
  with pr_for (q : forq) : toks :=
    match q with
    | ForIn v k s bd r =>
        tk KFor "FOR" :: word_tok v ::
        match k with Some k' => [COMMA; word_tok k'] | None => [] end
        ++ tk KIn "IN" :: body s
        ++ (fix go (l : list fclause) : toks :=
              match l with [] => [] | x :: r => pr_clause x ++ go r end) bd
        ++ pr_ret r
    | ForWhile v d c bd r =>
        tk KFor "FOR" :: word_tok v ::
        (if d then [tk KDo "DO"] else []) ++ tk KWhile "WHILE" :: wrap (needs 1 c) (body c)
        ++ (fix go (l : list fclause) : toks :=
              match l with [] => [] | x :: r => pr_clause x ++ go r end) bd
        ++ pr_ret r
    end
  with pr_clause (c : fclause) : toks :=
    match c with
    | CLet x e => tk KLet "LET" :: word_tok x :: tk KAssign "=" :: wrap (needs 1 e) (body e)
    | CCall e => match e with
                 | ESuppress a => body a ++ [tk KQuestion "?"]
                 | _ => body e
                 end
    | CFilter e => tk KFilter "FILTER" :: wrap (needs 1 e) (body e)
    | CSort ks =>
        tk KSort "SORT" ::
        (fix go (l : list (expr * bool)) : toks :=
           match l with
           | [] => []
           | [(e, d)] => wrap (needs 1 e) (body e) ++ (if d then [tk KSortDir "DESC"] else [])
           | (e, d) :: r =>
               wrap (needs 1 e) (body e) ++ (if d then [tk KSortDir "DESC"] else []) ++ COMMA :: go r
           end) ks
    | CLimit o n =>
        tk KLimit "LIMIT" ::
        match o with Some a => body a ++ [COMMA] | None => [] end ++ body n
    | CCollect gs t =>
        tk KCollect "COLLECT" ::
        (fix go (l : list (name * expr)) : toks :=
           match l with
           | [] => []
           | [(x, e)] => word_tok x :: tk KAssign "=" :: wrap (needs 1 e) (body e)
           | (x, e) :: r => word_tok x :: tk KAssign "=" :: wrap (needs 1 e) (body e) ++ COMMA :: go r
           end) gs
        ++ pr_ctail t
    end
  with pr_ctail (t : ctail) : toks :=
    match t with
    | CTNone => []
    | CTInto x p =>
        tk KInto "INTO" :: word_tok x ::
        match p with Some e => tk KAssign "=" :: wrap (needs 1 e) (body e) | None => [] end
    | CTCount x => [tk KWith "WITH"; tk KCount "COUNT"; tk KInto "INTO"; word_tok x]
    | CTAggr ss =>
        tk KAggregate "AGGREGATE" ::
        (fix go (l : list (name * name * list expr)) : toks :=
           match l with
           | [] => []
           | (x, f, args) :: r =>
               word_tok x :: tk KAssign "=" :: word_tok f :: LP ::
               (fix go2 (l : list expr) : toks :=
                  match l with
                  | [] => []
                  | [a] => wrap (needs 1 a) (body a)
                  | a :: r2 => wrap (needs 1 a) (body a) ++ COMMA :: go2 r2
                  end) args ++ RP ::
               match r with [] => [] | _ => COMMA :: go r end
           end) ss
    end
  with pr_ret (r : fret) : toks :=
    match r with
    | RReturn d e =>
        tk KReturn "RETURN" :: (if d then [tk KDistinct "DISTINCT"] else []) ++ wrap (needs 1 e) (body e)
    | RFor q => pr_for q
    end.

  Definition pr (m : nat) (e : expr) : toks := wrap (needs m e) (body e).

  Definition pr_stmt (s : stmt) : toks :=
    match s with
    | SLet x e => tk KLet "LET" :: word_tok x :: tk KAssign "=" :: pr 1 e
    | SCall e => match e with
                 | ESuppress a => body a ++ [tk KQuestion "?"]
                 | _ => body e
                 end
    end.
  Definition print_program (p : program) : toks :=
    flat_map pr_stmt (p_stmts p)
    ++ match p_ret p with
       | BReturn e => tk KReturn "RETURN" :: pr 1 e
       | BFor q => pr_for q
       end.
End Printer.

Definition no_extra (_ : expr) : bool := false.
Definition print_expr (e : expr) : toks := pr no_extra 1 e.
Definition print_min (p : program) : toks := print_program no_extra p.

(* -------------------------------------------------------- renderings *)
Fixpoint render_from (i : nat) (lay : nat -> bytes) (ts : toks) : bytes :=
  match ts with
  | [] => lay i
  | t :: r => lay i ++ snd t ++ render_from (S i) lay r
  end.
Definition render (lay : nat -> bytes) (ts : toks) : bytes := render_from 0 lay ts.

(* a layout string: only hidden-channel material, i.e. it lexes to nothing *)
Definition is_layout (l : bytes) : bool :=
  match lex l with Some [] => true | _ => false end.

(* letter case of the tokens whose text is not part of the meaning: reserved
   words in keyword position.  [f i] maps the text of token i. *)
Definition case_insensitive_kind (k : kind) : bool :=
  is_safe_rw k || is_unsafe_rw k.
Fixpoint recase_from (i : nat) (f : nat -> bytes -> bytes) (ts : toks) : toks :=
  match ts with
  | [] => []
  | (k, t) :: r =>
      (k, if case_insensitive_kind k then f i t else t) :: recase_from (S i) f r
  end.
Definition recase (f : nat -> bytes -> bytes) (ts : toks) : toks := recase_from 0 f ts.
