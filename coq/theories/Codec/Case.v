(* Codec/Case.v — UPPER / LOWER (pkg/stdlib/strings/case.go): strings.ToUpper
   and strings.ToLower.  A string of ASCII bytes is mapped bytewise; any other
   string goes through strings.Map(unicode.ToUpper / ToLower, s): decoded rune
   by rune (every invalid byte is U+FFFD), mapped, re-encoded.  The rune
   mapping is a table (rune, image) of the runes that change, supplied from
   Generated/GenUnicodeCase.v, which the harness prints from Go's unicode
   package on every run.  Definitions only. *)
From Ferret Require Export Base Codec.CUtf8.
Open Scope N_scope.

Definition ascii_upper (c : N) : N := if in_rng 97 122 c then c - 32 else c.
Definition ascii_lower (c : N) : N := if in_rng 65 90 c then c + 32 else c.

Fixpoint case_lookup (T : list (N * N)) (r : N) : option N :=
  match T with
  | [] => None
  | (a, b) :: T' => if a =? r then Some b else case_lookup T' r
  end.

(* unicode.ToUpper / unicode.ToLower given the table of runes that change *)
Definition rune_map (T : list (N * N)) (r : N) : N :=
  match case_lookup T r with Some u => u | None => r end.

(* strings.Map(f, s) for an f that never returns a negative rune *)
Definition map_runes (f : N -> N) (s : bytes) : bytes :=
  flat_map (fun r => utf8_encode (f r)) (utf8_runes s).

Definition go_to_upper (T : list (N * N)) (s : bytes) : bytes :=
  if is_ascii s then map ascii_upper s else map_runes (rune_map T) s.
Definition go_to_lower (T : list (N * N)) (s : bytes) : bytes :=
  if is_ascii s then map ascii_lower s else map_runes (rune_map T) s.

(* checks on a table, evaluated on the generated tables in the proofs:
   images are fixed points, images are valid runes, and on ASCII the table is
   the bytewise mapping *)
Definition table_idem (T : list (N * N)) : bool :=
  forallb (fun p => rune_map T (snd p) =? snd p) T.
Definition table_valid (T : list (N * N)) : bool :=
  forallb (fun p => valid_rune (snd p)) T.
Fixpoint upto (n : nat) : list N :=
  match n with O => [] | S k => upto k ++ [N.of_nat k] end.
Definition table_ascii (T : list (N * N)) (f : N -> N) : bool :=
  forallb (fun r => rune_map T r =? f r) (upto 128).
