(* Codec/Base64.v — encoding/base64 StdEncoding (standard alphabet, '=' padding)
   as TO_BASE64 / FROM_BASE64 use it (pkg/stdlib/strings/encode.go, decode.go).
   Definitions only; proofs in Proofs/CodecBase64Proofs.v. *)
From Ferret Require Export Base.
Open Scope N_scope.

(* the alphabet: index 0..63 -> character *)
Definition b64_char (i : N) : N :=
  if i <? 26 then 65 + i            (* 'A'..'Z' *)
  else if i <? 52 then 71 + i       (* 'a'..'z' = 97 + (i - 26) *)
  else if i <? 62 then i - 4        (* '0'..'9' = 48 + (i - 52) *)
  else if i =? 62 then 43           (* '+' *)
  else 47.                          (* '/' *)

(* decodeMap: character -> index, None for every byte outside the alphabet *)
Definition b64_index (c : N) : option N :=
  if (65 <=? c) && (c <=? 90) then Some (c - 65)
  else if (97 <=? c) && (c <=? 122) then Some (c - 71)
  else if (48 <=? c) && (c <=? 57) then Some (c + 4)
  else if c =? 43 then Some 62
  else if c =? 47 then Some 63
  else None.

Definition b64_pad : N := 61.        (* '=' *)

(* Encoding.Encode: 3 bytes -> 4 characters; a remainder of 1 or 2 bytes is
   encoded with 2 or 3 characters and padded to 4 *)
Fixpoint b64_encode (s : bytes) : bytes :=
  match s with
  | a :: b :: c :: r =>
      let v := a * 65536 + b * 256 + c in
      b64_char (v / 262144) :: b64_char ((v / 4096) mod 64)
        :: b64_char ((v / 64) mod 64) :: b64_char (v mod 64) :: b64_encode r
  | [a; b] =>
      let v := a * 65536 + b * 256 in
      [b64_char (v / 262144); b64_char ((v / 4096) mod 64); b64_char ((v / 64) mod 64); b64_pad]
  | [a] =>
      let v := a * 65536 in
      [b64_char (v / 262144); b64_char ((v / 4096) mod 64); b64_pad; b64_pad]
  | [] => []
  end.

(* Encoding.DecodeString ignores '\r' and '\n' wherever they occur *)
Definition b64_skip (c : N) : bool := (c =? 13) || (c =? 10).
Definition b64_strip (s : bytes) : bytes := filter (fun c => negb (b64_skip c)) s.

Definition is_nil {A} (l : list A) : bool := match l with [] => true | _ => false end.

(* decodeQuantum over the stripped input.  Every failure of the Go decoder
   (CorruptInputError: a byte outside the alphabet, padding in the first two
   positions, a single '=' where two are needed, anything after the padding,
   an incomplete quantum at the end) is None.  Like the non-strict Go decoder,
   the unused low bits of a padded quantum are not checked. *)
Fixpoint b64_quads (s : bytes) : option bytes :=
  match s with
  | [] => Some []
  | c0 :: c1 :: c2 :: c3 :: r =>
      match b64_index c0, b64_index c1 with
      | Some i0, Some i1 =>
          match b64_index c2, b64_index c3 with
          | Some i2, Some i3 =>
              let v := i0 * 262144 + i1 * 4096 + i2 * 64 + i3 in
              match b64_quads r with
              | Some t => Some (v / 65536 :: (v / 256) mod 256 :: v mod 256 :: t)
              | None => None
              end
          | Some i2, None =>
              if (c3 =? b64_pad) && is_nil r then
                let v := i0 * 262144 + i1 * 4096 + i2 * 64 in
                Some [v / 65536; (v / 256) mod 256]
              else None
          | None, _ =>
              if (c2 =? b64_pad) && (c3 =? b64_pad) && is_nil r then
                let v := i0 * 262144 + i1 * 4096 in
                Some [v / 65536]
              else None
          end
      | _, _ => None
      end
  | _ => None
  end.

Definition b64_decode (s : bytes) : option bytes := b64_quads (b64_strip s).
