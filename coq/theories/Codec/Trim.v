(* Codec/Trim.v — TRIM / LTRIM / RTRIM (pkg/stdlib/strings/trim.go):
   strings.TrimSpace, strings.Trim/TrimLeft/TrimRight with a cutset.
   The cutset is the list of the UTF-8 encodings of its runes; trimming strips
   such encodings from the front (TrimLeft: DecodeRuneInString) or from the
   back (TrimRight: DecodeLastRuneInString).  Faithful for cutsets that are
   valid UTF-8 and do not contain U+FFFD (a cutset containing U+FFFD or an
   invalid byte makes Go also strip every invalid byte of the text — not
   modelled; the harness pool does not contain such cutsets).
   Definitions only. *)
From Ferret Require Export Base Codec.CUtf8 Codec.SplitJoin.
Open Scope N_scope.

(* the first member of the cutset that is a prefix of s; empty members never match *)
Fixpoint strip_any (cs : list bytes) (s : bytes) : option bytes :=
  match cs with
  | [] => None
  | c :: cs' =>
      match c with
      | [] => strip_any cs' s
      | _ => match strip_prefix c s with
             | Some r => Some r
             | None => strip_any cs' s
             end
      end
  end.

(* fuel = length of the text: every successful strip removes at least one byte,
   so fuel 0 is reached only with the empty text (CodecTrimProofs.trim_left_fix) *)
Fixpoint trim_left_f (fuel : nat) (cs : list bytes) (s : bytes) : bytes :=
  match fuel with
  | O => s
  | S f => match strip_any cs s with
           | Some r => trim_left_f f cs r
           | None => s
           end
  end.

Definition trim_left (cs : list bytes) (s : bytes) : bytes := trim_left_f (List.length s) cs s.
Definition trim_right (cs : list bytes) (s : bytes) : bytes :=
  rev (trim_left (map (@rev N) cs) (rev s)).
(* strings.Trim and strings.TrimSpace trim the right end, then the left end *)
Definition trim (cs : list bytes) (s : bytes) : bytes := trim_left cs (trim_right cs s).

Definition cutset_of (chars : bytes) : list bytes := utf8_units chars.

(* unicode.IsSpace: \t \n \v \f \r space, U+0085, U+00A0, U+1680,
   U+2000..U+200A, U+2028, U+2029, U+202F, U+205F, U+3000 *)
Definition space_cutset : list bytes :=
  [[9]; [10]; [11]; [12]; [13]; [32]; [194; 133]; [194; 160]; [225; 154; 128];
   [226; 128; 128]; [226; 128; 129]; [226; 128; 130]; [226; 128; 131]; [226; 128; 132];
   [226; 128; 133]; [226; 128; 134]; [226; 128; 135]; [226; 128; 136]; [226; 128; 137];
   [226; 128; 138]; [226; 128; 168]; [226; 128; 169]; [226; 128; 175]; [226; 129; 159];
   [227; 128; 128]].

(* the FQL functions.  [chars] = None: the argument was not given. *)
Definition fql_trim (s : bytes) (chars : option bytes) : bytes :=
  match chars with
  | None => trim space_cutset s
  | Some c => trim (cutset_of c) s
  end.
Definition fql_ltrim (s : bytes) (chars : option bytes) : bytes :=
  trim_left (cutset_of (match chars with None => [32] | Some c => c end)) s.
Definition fql_rtrim (s : bytes) (chars : option bytes) : bytes :=
  trim_right (cutset_of (match chars with None => [32] | Some c => c end)) s.
