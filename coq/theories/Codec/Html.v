(* Codec/Html.v — ESCAPE_HTML (html.EscapeString) and UNESCAPE_HTML
   (html.UnescapeString) (pkg/stdlib/strings/escape.go, unescape.go).
   RESTRICTION: the decoder modelled here knows exactly the five entities the
   encoder produces (&amp; &#39; &lt; &gt; &#34;); an '&' that does not start
   one of them is kept.  html.UnescapeString knows the whole HTML5 entity
   table and all numeric references, so this model agrees with it on the
   image of the encoder (which is what the round trip needs), not on
   arbitrary text.  Definitions only. *)
From Ferret Require Export Base Codec.SplitJoin.
Open Scope N_scope.

Definition html_esc_byte (c : N) : bytes :=
  if c =? 38 then bs "&amp;"
  else if c =? 39 then bs "&#39;"
  else if c =? 60 then bs "&lt;"
  else if c =? 62 then bs "&gt;"
  else if c =? 34 then bs "&#34;"
  else [c].

Definition html_escape (s : bytes) : bytes := flat_map html_esc_byte s.

Definition is_some {A} (o : option A) : bool := match o with Some _ => true | None => false end.

(* [k]: bytes of an entity already decoded that remain to be skipped *)
Fixpoint html_unesc_go (k : nat) (s : bytes) : bytes :=
  match s with
  | [] => []
  | c :: r =>
      match k with
      | S k' => html_unesc_go k' r
      | O =>
          if c =? 38 then
            if is_some (strip_prefix (bs "amp;") r) then 38 :: html_unesc_go 4 r
            else if is_some (strip_prefix (bs "#39;") r) then 39 :: html_unesc_go 4 r
            else if is_some (strip_prefix (bs "lt;") r) then 60 :: html_unesc_go 3 r
            else if is_some (strip_prefix (bs "gt;") r) then 62 :: html_unesc_go 3 r
            else if is_some (strip_prefix (bs "#34;") r) then 34 :: html_unesc_go 4 r
            else c :: html_unesc_go 0 r
          else c :: html_unesc_go 0 r
      end
  end.
Definition html_unescape (s : bytes) : bytes := html_unesc_go 0 s.
