(* Codec/SplitJoin.v — SPLIT(text, separator) without a limit (strings.Split)
   and CONCAT_SEPARATOR(separator, array-of-strings)
   (pkg/stdlib/strings/split.go, concat.go).  Definitions only. *)
From Ferret Require Export Base Codec.CUtf8.
Open Scope N_scope.

(* strings.HasPrefix + the remainder *)
Fixpoint strip_prefix (p s : bytes) : option bytes :=
  match p, s with
  | [], _ => Some s
  | x :: p', y :: s' => if x =? y then strip_prefix p' s' else None
  | _ :: _, [] => None
  end.

(* genSplit with n < 0 and a non-empty separator: leftmost, non-overlapping
   occurrences; [cur] is the current piece, reversed.  One unit of fuel per
   byte of input; None = out of fuel (never reached from [str_split], see
   Proofs/CodecSplitJoinProofs.split_total). *)
Fixpoint split_f (fuel : nat) (sep cur s : bytes) : option (list bytes) :=
  match s with
  | [] => Some [rev cur]
  | c :: r =>
      match fuel with
      | O => None
      | S f =>
          match strip_prefix sep s with
          | Some rest =>
              match split_f f sep [] rest with
              | Some l => Some (rev cur :: l)
              | None => None
              end
          | None => split_f f sep (c :: cur) r
          end
      end
  end.

(* strings.Split: an empty separator explodes the string into UTF-8 sequences
   (invalid bytes one by one); Split("", sep) = [""] for a non-empty sep and
   Split("", "") = [] *)
Definition str_split (sep s : bytes) : option (list bytes) :=
  match sep with
  | [] => Some (utf8_units s)
  | _ => split_f (List.length s) sep [] s
  end.

(* CONCAT_SEPARATOR(sep, arr) for an array of strings: the separator goes
   before every element whose index is > 0.  (None elements, which the Go
   function skips, do not occur in the output of SPLIT.) *)
Fixpoint str_join (sep : bytes) (l : list bytes) : bytes :=
  match l with
  | [] => []
  | [x] => x
  | x :: r => x ++ sep ++ str_join sep r
  end.
