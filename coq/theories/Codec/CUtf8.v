(* Codec/CUtf8.v — UTF-8 as Go's unicode/utf8 reads and writes it
   (DecodeRuneInString, AppendRune, ValidString): the acceptance ranges of the
   `first`/`acceptRanges` tables, U+FFFD width 1 for every invalid byte.
   Used by the C17 codec models (explode, Unquote, case mapping).
   Definitions only; proofs in Proofs/CodecUtf8Proofs.v. *)
From Ferret Require Export Base.
Open Scope N_scope.

Definition rune_error : N := 65533.                       (* U+FFFD *)
Definition cont (b : N) : bool := (128 <=? b) && (b <=? 191).
Definition in_rng (lo hi b : N) : bool := (lo <=? b) && (b <=? hi).

(* utf8.DecodeRuneInString: (rune, width); (RuneError, 1) for an invalid or
   truncated sequence, (RuneError, 0) for the empty string *)
Definition utf8_decode (s : bytes) : N * nat :=
  match s with
  | [] => (rune_error, 0%nat)
  | b0 :: r =>
      if b0 <? 128 then (b0, 1%nat)
      else if b0 <? 194 then (rune_error, 1%nat)
      else if b0 <? 224 then
        match r with
        | b1 :: _ => if cont b1 then ((b0 - 192) * 64 + (b1 - 128), 2%nat) else (rune_error, 1%nat)
        | _ => (rune_error, 1%nat)
        end
      else if b0 <? 240 then
        match r with
        | b1 :: b2 :: _ =>
            if in_rng (if b0 =? 224 then 160 else 128) (if b0 =? 237 then 159 else 191) b1 && cont b2
            then ((b0 - 224) * 4096 + (b1 - 128) * 64 + (b2 - 128), 3%nat)
            else (rune_error, 1%nat)
        | _ => (rune_error, 1%nat)
        end
      else if b0 <? 245 then
        match r with
        | b1 :: b2 :: b3 :: _ =>
            if in_rng (if b0 =? 240 then 144 else 128) (if b0 =? 244 then 143 else 191) b1
               && cont b2 && cont b3
            then ((b0 - 240) * 262144 + (b1 - 128) * 4096 + (b2 - 128) * 64 + (b3 - 128), 4%nat)
            else (rune_error, 1%nat)
        | _ => (rune_error, 1%nat)
        end
      else (rune_error, 1%nat)
  end.

(* is the first unit a well-formed sequence?  (a literal U+FFFD, EF BF BD, is) *)
Definition utf8_first_ok (s : bytes) : bool :=
  match s with
  | [] => false
  | b0 :: _ =>
      let '(r, w) := utf8_decode s in
      negb ((r =? rune_error) && (Nat.eqb w 1))
  end.

(* utf8.ValidRune *)
Definition valid_rune (r : N) : bool := (r <? 55296) || ((57344 <=? r) && (r <=? 1114111)).

(* utf8.AppendRune; invalid runes are written as U+FFFD *)
Definition utf8_encode (r : N) : bytes :=
  if r <? 128 then [r]
  else if r <? 2048 then [192 + r / 64; 128 + r mod 64]
  else if negb (valid_rune r) then [239; 191; 189]
  else if r <? 65536 then [224 + r / 4096; 128 + (r / 64) mod 64; 128 + r mod 64]
  else [240 + r / 262144; 128 + (r / 4096) mod 64; 128 + (r / 64) mod 64; 128 + r mod 64].

(* the string cut into units the way `for range` / explode does: every valid
   sequence is one unit, every other byte is a unit of its own.  [k] counts
   the bytes of the current unit that are still to be skipped. *)
Fixpoint units_go (k : nat) (s : bytes) : list bytes :=
  match s with
  | [] => []
  | _ :: r =>
      match k with
      | S k' => units_go k' r
      | O => let w := snd (utf8_decode s) in firstn w s :: units_go (w - 1) r
      end
  end.
Definition utf8_units (s : bytes) : list bytes := units_go 0 s.

(* the decoded runes, U+FFFD for every invalid byte: []rune(s) *)
Fixpoint runes_go (k : nat) (s : bytes) : list N :=
  match s with
  | [] => []
  | _ :: r =>
      match k with
      | S k' => runes_go k' r
      | O => let '(c, w) := utf8_decode s in c :: runes_go (w - 1) r
      end
  end.
Definition utf8_runes (s : bytes) : list N := runes_go 0 s.

(* utf8.ValidString *)
Fixpoint valid_go (k : nat) (s : bytes) : bool :=
  match s with
  | [] => true
  | _ :: r =>
      match k with
      | S k' => valid_go k' r
      | O => utf8_first_ok s && valid_go (snd (utf8_decode s) - 1) r
      end
  end.
Definition utf8_valid (s : bytes) : bool := valid_go 0 s.

Definition is_ascii (s : bytes) : bool := forallb (fun b => b <? 128) s.
