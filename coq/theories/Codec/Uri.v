(* Codec/Uri.v — ENCODE_URI_COMPONENT (url.QueryEscape) and
   DECODE_URI_COMPONENT (url.QueryUnescape, then — on the pinned tree —
   strconv.Unquote of the result wrapped in double quotes)
   (pkg/stdlib/strings/encode.go, decode.go).  Definitions only. *)
From Ferret Require Export Base Codec.CUtf8.
Open Scope N_scope.

(* shouldEscape(c, encodeQueryComponent) = false exactly for
   ALPHA / DIGIT / '-' '_' '.' '~' *)
Definition uri_unreserved (c : N) : bool :=
  in_rng 97 122 c || in_rng 65 90 c || in_rng 48 57 c
  || (c =? 45) || (c =? 95) || (c =? 46) || (c =? 126).

Definition upperhex (d : N) : N := if d <? 10 then 48 + d else 55 + d.   (* 0123456789ABCDEF *)

Definition query_escape_byte (c : N) : bytes :=
  if uri_unreserved c then [c]
  else if c =? 32 then [43]                              (* ' ' -> '+' *)
  else [37; upperhex (c / 16); upperhex (c mod 16)].     (* %XX *)

Definition query_escape (s : bytes) : bytes := flat_map query_escape_byte s.

(* ishex / unhex *)
Definition unhex (c : N) : option N :=
  if in_rng 48 57 c then Some (c - 48)
  else if in_rng 97 102 c then Some (c - 87)
  else if in_rng 65 70 c then Some (c - 55)
  else None.

(* url.unescape(s, encodeQueryComponent): a '%' that is not followed by two
   hex digits is an EscapeError (None) wherever it occurs; '+' is a space *)
Fixpoint query_unescape (s : bytes) : option bytes :=
  match s with
  | [] => Some []
  | c :: r =>
      if c =? 37 then
        match r with
        | h1 :: h2 :: r2 =>
            match unhex h1, unhex h2 with
            | Some a, Some b =>
                match query_unescape r2 with
                | Some t => Some (a * 16 + b :: t)
                | None => None
                end
            | _, _ => None
            end
        | _ => None
        end
      else
        match query_unescape r with
        | Some t => Some ((if c =? 43 then 32 else c) :: t)
        | None => None
        end
  end.

(* ---- strconv.Unquote of the text wrapped in double quotes *)
Inductive uq : Type :=
| UqOk (b : bytes)
| UqErr                 (* strconv.ErrSyntax *)
| UqFuel.               (* model ran out of fuel; never from [go_unquote] *)

Fixpoint take_hex (n : nat) (s : bytes) (acc : N) : option (N * bytes) :=
  match n with
  | O => Some (acc, s)
  | S k => match s with
           | [] => None
           | c :: r => match unhex c with
                       | Some x => take_hex k r (acc * 16 + x)
                       | None => None
                       end
           end
  end.

Definition octdig (c : N) : option N := if in_rng 48 55 c then Some (c - 48) else None.

(* one escape sequence after the backslash (UnquoteChar, quote = double quote):
   Some (bytes appended to the output, rest of the input) or None = ErrSyntax *)
Definition uq_escape (s : bytes) : option (bytes * bytes) :=
  match s with
  | [] => None
  | e :: r =>
      if e =? 97 then Some ([7], r)             (* \a *)
      else if e =? 98 then Some ([8], r)        (* \b *)
      else if e =? 102 then Some ([12], r)      (* \f *)
      else if e =? 110 then Some ([10], r)      (* \n *)
      else if e =? 114 then Some ([13], r)      (* \r *)
      else if e =? 116 then Some ([9], r)       (* \t *)
      else if e =? 118 then Some ([11], r)      (* \v *)
      else if e =? 92 then Some ([92], r)       (* \\ *)
      else if e =? 34 then Some ([34], r)       (* backslash, double quote *)
      else if e =? 120 then                     (* \xHH: one byte, possibly not UTF-8 *)
        match take_hex 2 r 0 with Some (v, r') => Some ([v], r') | None => None end
      else if (e =? 117) || (e =? 85) then      (* \uHHHH, \UHHHHHHHH *)
        match take_hex (if e =? 117 then 4 else 8) r 0 with
        | Some (v, r') => if valid_rune v then Some (utf8_encode v, r') else None
        | None => None
        end
      else
        match octdig e, r with                  (* \OOO, at most 255 *)
        | Some d0, c1 :: c2 :: r' =>
            match octdig c1, octdig c2 with
            | Some d1, Some d2 =>
                let v := d0 * 64 + d1 * 8 + d2 in
                if v <=? 255 then Some ([v], r') else None
            | _, _ => None
            end
        | _, _ => None                          (* includes \' and every other letter *)
        end
  end.

(* the body between the quotes.  An unescaped double quote ends the literal early and
   leaves trailing text (ErrSyntax in Unquote); a raw newline is ErrSyntax;
   bytes that are not valid UTF-8 are replaced by U+FFFD (the fast path that
   returns the text unchanged is taken only for valid UTF-8 without backslash
   and newline, where the loop below is the identity as well). *)
Fixpoint uq_go (fuel : nat) (s acc : bytes) : uq :=
  match s with
  | [] => UqOk (rev acc)
  | c :: r =>
      match fuel with
      | O => UqFuel
      | S f =>
          if (c =? 34) || (c =? 10) then UqErr
          else if c =? 92 then
            match uq_escape r with
            | Some (out, r') => uq_go f r' (rev out ++ acc)
            | None => UqErr
            end
          else if c <? 128 then uq_go f r (c :: acc)
          else
            let w := snd (utf8_decode s) in
            if utf8_first_ok s then uq_go f (skipn w s) (rev (firstn w s) ++ acc)
            else uq_go f r (rev [239; 191; 189] ++ acc)
      end
  end.

Definition go_unquote (s : bytes) : uq := uq_go (List.length s) s [].

(* DECODE_URI_COMPONENT on the pinned tree *)
Definition fql_decode_uri (s : bytes) : option bytes :=
  match query_unescape s with
  | None => None
  | Some t => match go_unquote t with
              | UqOk u => Some u
              | _ => None
              end
  end.

(* the guard the pinned code needs for the round trip *)
Definition uri_plain (c : N) : bool := negb ((c =? 34) || (c =? 92) || (c =? 10)).
Definition uri_safe (s : bytes) : bool := forallb uri_plain s && utf8_valid s.
