(* FloatOps.v — exact arithmetic on finite binary64 values.  A finite double is
   s * 2^-1074 for a unique integer s = [fscaled bits] (Value.v).  Every
   operation computes the exact rational result and returns it only if it is
   itself a double ([None] = the IEEE operation would round: outside the
   model's domain, the harness does not generate such cases). *)
From Ferret Require Export Base Value.

Definition f_neg_zero : N := 9223372036854775808%N.   (* 2^63 *)
Definition f_is_zero (b : N) : bool := fscaled b =? 0.

(* the double whose scaled value is s, if any *)
Definition encode_scaled (s : Z) : option N :=
  let a := Z.abs s in
  let sign := if s <? 0 then f_neg_zero else 0%N in
  if a <? 2 ^ 52 then Some (sign + Z.to_N a)%N            (* zero and subnormals *)
  else
    let L := Z.log2 a in
    let sh := L - 52 in
    if Z.land a (Z.ones sh) =? 0 then
      let man := Z.shiftr a sh - 2 ^ 52 in
      let ex := L - 51 in
      if ex <=? 2046 then Some (sign + Z.to_N (Z.shiftl ex 52) + Z.to_N man)%N else None
    else None.

Definition f_of_int (z : Z) : option N := encode_scaled (Z.shiftl (round53 z) 1074).

Definition f_signed_zero (neg : bool) : N := if neg then f_neg_zero else 0%N.

Definition f_add (x y : N) : option N :=
  let s := fscaled x + fscaled y in
  if s =? 0 then Some (f_signed_zero (f_sign x && f_sign y && f_is_zero x && f_is_zero y))
  else encode_scaled s.
Definition f_opp (x : N) : N := N.lxor x f_neg_zero.
Definition f_sub (x y : N) : option N := f_add x (f_opp y).
Definition f_mul (x y : N) : option N :=
  let p := fscaled x * fscaled y in
  if p =? 0 then Some (f_signed_zero (xorb (f_sign x) (f_sign y)))
  else if Z.land (Z.abs p) (Z.ones 1074) =? 0
       then encode_scaled (Z.sgn p * Z.shiftr (Z.abs p) 1074) else None.
(* y must be non-zero *)
Definition f_div (x y : N) : option N :=
  let n := Z.shiftl (fscaled x) 1074 in
  let d := fscaled y in
  if n =? 0 then Some (f_signed_zero (xorb (f_sign x) (f_sign y)))
  else if Z.rem n d =? 0 then encode_scaled (Z.quot n d) else None.
(* Go's int64(f): truncation toward zero; None outside int64 *)
Definition f_trunc (x : N) : option Z :=
  let t := Z.quot (fscaled x) (2 ^ 1074) in
  if (- 2 ^ 63 <=? t) && (t <? 2 ^ 63) then Some t else None.

Definition wrap64 (z : Z) : Z := (z + 2 ^ 63) mod 2 ^ 64 - 2 ^ 63.
