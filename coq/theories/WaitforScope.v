(* WaitforScope.v — static name resolution of
     WAITFOR EVENT name IN source [OPTIONS o] [FILTER f] [TIMEOUT t]
   (pkg/compiler/visitor.go visitWaitForExpression).  Definitions only.

   The event name, the source, the options and the timeout are resolved in the
   enclosing scope; the filter is resolved in a fork of it in which the pseudo
   variable CURRENT is declared.  An operand is represented by the list of
   variable names it mentions (the harness sends exactly those). *)
From Ferret Require Export Base.

Definition name := bytes.
Definition current_var : name := bs "CURRENT".

Record wf_refs := {
  wf_name : list name;
  wf_src : list name;
  wf_opts : list name;
  wf_filter : option (list name);
  wf_timeout : list name
}.

Definition mem (x : name) (l : list name) : bool := existsb (bytes_eqb x) l.

(* [vis] = the names declared in the enclosing scopes at the WAITFOR *)
Definition outside_ok (vis : list name) (w : wf_refs) : bool :=
  forallb (fun x => mem x vis) (wf_name w ++ wf_src w ++ wf_opts w ++ wf_timeout w).
Definition filter_ok (vis : list name) (w : wf_refs) : bool :=
  match wf_filter w with
  | None => true
  | Some fs => forallb (fun x => mem x (current_var :: vis)) fs
  end.
Definition chk_waitfor (vis : list name) (w : wf_refs) : bool := outside_ok vis w && filter_ok vis w.
