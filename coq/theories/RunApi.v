(* RunApi.v — Program.Run around the evaluator (pkg/runtime/program.go):
   recover, MarshalJSON, the deferred close of the root scope.
   [wraps] = what the `case error:` branch of the recover handler wraps:
   true = the recovered value (specified; the repaired code), false = the named
   result, which is nil at that point (the pinned tree).  Definitions only. *)
From Ferret Require Export Eval.

Inductive api_result :=
| AJson (v : value)          (* well-formed JSON bytes, nil error *)
| AError                     (* non-nil error *)
| ANilNil                    (* empty result with a nil error *)
| AEscaped                   (* a panic left Run *)
| AUndefined.                (* the model gave up: out of fuel / outside its domain *)

(* the history of a whole Run: what evaluation did (it can only call and bind:
   Eval.event has no constructor for closing), then serialisation, then the
   deferred close of every registered closable in registration order *)
Inductive revent :=
| REval (e : event)
| RMarshal
| RClose (id : Z).

Definition eval_events (w : world) : list revent := map REval (rev (w_trace w)).
Definition close_events (w : world) : list revent := map RClose (rev (w_closers w)).

Definition finish (wraps : bool) (o : outcome value) (w : world) : api_result * list revent :=
  match o with
  | Ok v => (AJson v, eval_events w ++ [RMarshal] ++ close_events w)
  | Err _ => (AError, eval_events w ++ close_events w)
  | PanicStr => (AError, eval_events w ++ close_events w)
  | PanicErr => ((if wraps then AError else ANilNil), eval_events w ++ close_events w)
  | PanicOther => (AError, eval_events w ++ close_events w)
  | OutOfFuel | OutOfDomain => (AUndefined, eval_events w)
  end.

Definition run_api_g (wraps strict : bool) (fuel : nat) (p : program) (w : world) : api_result * list revent :=
  let '(o, w1) := run_body_g strict fuel p w in finish wraps o w1.
Notation run_api := (run_api_g true true).

Definition is_close (e : revent) : bool := match e with RClose _ => true | _ => false end.
Definition close_ids (h : list revent) : list Z :=
  fold_right (fun e acc => match e with RClose id => id :: acc | _ => acc end) [] h.
Definition bound_ids (h : list revent) : list Z :=
  fold_right (fun e acc => match e with REval (EvBind id) => id :: acc | _ => acc end) [] h.
(* no event of evaluation or serialisation follows a close *)
Fixpoint closes_last (h : list revent) : bool :=
  match h with
  | [] => true
  | e :: r => if is_close e then forallb is_close r else closes_last r
  end.
