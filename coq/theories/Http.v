(* Http.v — model of what the static (HTTP) driver puts on the wire and how it
   treats the response (C19).

   Mirrors pkg/drivers/headers.go (Set / SetArr / Get), pkg/drivers/helpers.go
   (SetDefaultParams), pkg/drivers/http/driver.go (makeRequest,
   responseCodeAllowed, Open) and pkg/stdlib/html/document.go (parseHeader).
   [*_spec] is the behaviour the property states; [*_pinned] mirrors the pinned
   code where it differs.  Definitions only; lemmas are in Proofs/HttpProofs.v.

   A header store is a Go map from name to value list: keys are unique (as exact
   byte strings) and the order of the list stands for one iteration order. *)
From Ferret Require Import Base.

Definition hstore := list (bytes * list bytes).

(* ---------- textproto.CanonicalMIMEHeaderKey on token characters
   (letters, digits, '-'): upper-case the first letter and every letter after
   '-', lower-case the rest *)
Definition is_lower (b : N) : bool := ((97 <=? b) && (b <=? 122))%N.
Definition is_upper (b : N) : bool := ((65 <=? b) && (b <=? 90))%N.
Definition up (b : N) : N := if is_lower b then (b - 32)%N else b.
Definition low (b : N) : N := if is_upper b then (b + 32)%N else b.
Fixpoint canon_aux (upper : bool) (s : bytes) : bytes :=
  match s with
  | [] => []
  | b :: r => (if upper then up b else low b) :: canon_aux (b =? 45)%N r
  end.
Definition canon (s : bytes) : bytes := canon_aux true s.

(* names are equal as HTTP header names *)
Definition ci_eqb (a b : bytes) : bool := bytes_eqb (canon a) (canon b).

(* ---------- the store *)
Fixpoint lookup (k : bytes) (s : hstore) : option (list bytes) :=
  match s with
  | [] => None
  | (k', vs) :: r => if bytes_eqb k k' then Some vs else lookup k r
  end.

(* SetArr: h.values[key] = value — the key exactly as given *)
Fixpoint set_arr (k : bytes) (vs : list bytes) (s : hstore) : hstore :=
  match s with
  | [] => [(k, vs)]
  | (k', vs') :: r => if bytes_eqb k k' then (k, vs) :: r else (k', vs') :: set_arr k vs r
  end.

(* Set: textproto.MIMEHeader.Set — canonical key, one value *)
Definition set (k v : bytes) (s : hstore) : hstore := set_arr (canon k) [v] s.

(* Get: the exact key must be present; then MIMEHeader.Get: first value under the canonical key *)
Definition get (k : bytes) (s : hstore) : bytes :=
  match lookup k s with
  | None => []
  | Some _ => match lookup (canon k) s with Some (v :: _) => v | _ => [] end
  end.

(* ---------- configuration, two levels *)
(* driver level: WithHeader(name, values) stores with SetArr; a drivers.HTTPHeaders
   filled with Set(name, value) and passed to WithHeaders arrives canonical *)
Inductive dopt := DHeader (k : bytes) (vs : list bytes) | DSet (k v : bytes).
(* query level: DOCUMENT(url, {headers: {name: "v"}}) goes through Set, {name: ["v","w"]} through SetArr *)
Inductive hval := One (v : bytes) | Many (vs : list bytes).

Definition store_of_dopts (d : list dopt) : hstore :=
  fold_left (fun s o => match o with DHeader k vs => set_arr k vs s | DSet k v => set k v s end) d [].
Definition parse_header (q : list (bytes * hval)) : hstore :=
  fold_left (fun s kv => match snd kv with One v => set (fst kv) v s | Many vs => set_arr (fst kv) vs s end) q [].

(* what was configured, as (name, values) lists *)
Definition cfg := list (bytes * list bytes).
Definition cfg_of_dopts (d : list dopt) : cfg :=
  map (fun o => match o with DHeader k vs => (k, vs) | DSet k v => (k, [v]) end) d.
Definition cfg_of_query (q : list (bytes * hval)) : cfg :=
  map (fun kv => (fst kv, match snd kv with One v => [v] | Many vs => vs end)) q.

(* the headers makeRequest always sets first *)
Definition base_headers : hstore :=
  [(bs "Accept", [bs "text/html,application/xhtml+xml,application/xml;q=0.9,image/webp,image/apng,*/*;q=0.8"]);
   (bs "Accept-Language", [bs "en-US,en;q=0.9,ru;q=0.8"]);
   (bs "Cache-Control", [bs "no-cache"]);
   (bs "Pragma", [bs "no-cache"])].

(* ---------- specification *)
Fixpoint ci_find (name : bytes) (c : cfg) : option (list bytes) :=
  match c with
  | [] => None
  | (k, vs) :: r => if ci_eqb name k then Some vs else ci_find name r
  end.

(* the value list in force for a header name: the query's, else the driver's default *)
Definition effective (defaults params : cfg) (name : bytes) : option (list bytes) :=
  match ci_find name params with
  | Some vs => Some vs
  | None => ci_find name defaults
  end.

(* what the server must receive under (the canonical form of) name *)
Definition wire_spec (defaults params : cfg) (name : bytes) : list bytes :=
  match effective defaults params name with
  | Some vs => vs
  | None => match lookup (canon name) base_headers with Some vs => vs | None => [] end
  end.

(* ---------- the pinned code *)
Definition is_nil (b : bytes) : bool := match b with [] => true | _ => false end.

(* SetDefaultParams: a default is copied (SetArr, raw key) unless Get finds a value *)
Definition merge_pinned (defaults params : hstore) : hstore :=
  fold_left (fun p kv => if is_nil (get (fst kv) p) then set_arr (fst kv) (snd kv) p else p) defaults params.

(* makeRequest: for every key, req.Header.Set(key, params.Headers.Get(key)) *)
Definition request_pinned (merged : hstore) : hstore :=
  fold_left (fun w kv => set (fst kv) (get (fst kv) merged) w) merged base_headers.

Definition wire_pinned (d : list dopt) (q : list (bytes * hval)) (name : bytes) : list bytes :=
  match lookup (canon name) (request_pinned (merge_pinned (store_of_dopts d) (parse_header q))) with
  | Some vs => vs
  | None => []
  end.

(* ---------- cookies and user agent (name -> value; the pinned code agrees with the specification) *)
Definition cookies := list (bytes * bytes).
Fixpoint cookie_find (n : bytes) (c : cookies) : option bytes :=
  match c with
  | [] => None
  | (k, v) :: r => if bytes_eqb n k then Some v else cookie_find n r
  end.
Definition cookies_spec (defaults params : cookies) : cookies :=
  params ++ filter (fun kv => match cookie_find (fst kv) params with Some _ => false | None => true end) defaults.
Definition ua_spec (default param : bytes) : bytes := if is_nil param then default else param.

(* ---------- status acceptance *)
Inductive gtok := GLit (b : N) | GAny | GStar.          (* gobwas/glob: literal, '?', '*' *)
Fixpoint glob_match (p : list gtok) (s : bytes) {struct p} : bool :=
  match p with
  | [] => is_nil s
  | GLit c :: r => match s with b :: s' => (b =? c)%N && glob_match r s' | [] => false end
  | GAny :: r => match s with _ :: s' => glob_match r s' | [] => false end
  | GStar :: r =>
      (fix try (s : bytes) : bool :=
         glob_match r s || match s with [] => false | _ :: s' => try s' end) s
  end.

(* a rule: status code and optional URL pattern (None: any URL) *)
Definition rule := (Z * option (list gtok))%type.
Definition rule_matches (code : Z) (url : bytes) (r : rule) : bool :=
  (fst r =? code) && match snd r with None => true | Some p => glob_match p url end.

(* responseCodeAllowed: 2xx, else a rule of the query, else a rule of the driver options *)
Definition accepted (code : Z) (query_rules driver_rules : list rule) (url : bytes) : bool :=
  ((200 <=? code) && (code <=? 299)) || existsb (rule_matches code url) query_rules
  || existsb (rule_matches code url) driver_rules.

(* ---------- response exposure: status, first value and all values of each header, cookies *)
Definition join_comma (vs : list bytes) : bytes :=
  match vs with
  | [] => []
  | v :: r => v ++ flat_map (fun x => bs ", " ++ x) r
  end.
Record response := mkResp { r_status : Z; r_headers : hstore; r_cookies : cookies }.
Definition reported_header (r : response) (name : bytes) : bytes * bytes :=
  match lookup name (r_headers r) with
  | Some vs => (match vs with v :: _ => v | [] => [] end, join_comma vs)
  | None => ([], [])
  end.

(* ---------- cancellation: does Run return before the response would have arrived? *)
Definition returns_early_spec (cancel_ms response_ms : Z) : bool := cancel_ms <? response_ms.
(* req = req.WithContext(ctx) is assigned to the parameter: the request in flight never sees the context *)
Definition returns_early_pinned (cancel_ms response_ms : Z) : bool := false.

(* ---------- the page's cookie collection: toDriverCookies puts every cookie of
   resp.Cookies() into a collection keyed by name (HTTPCookies.Set), whatever its
   value -- "legacy=; Max-Age=0" is a cookie with the empty value *)
Fixpoint cookie_set (n v : bytes) (c : cookies) : cookies :=
  match c with
  | [] => [(n, v)]
  | (k, x) :: r => if bytes_eqb n k then (n, v) :: r else (k, x) :: cookie_set n v r
  end.
Definition to_driver_cookies (l : cookies) : cookies :=
  fold_left (fun acc kv => cookie_set (fst kv) (snd kv) acc) l [].
Definition reported_cookies (r : response) : cookies := to_driver_cookies (r_cookies r).

(* ---------- histories: several documents opened through one driver instance.
   Open hands the driver's options to SetDefaultParams, which reads them and
   writes only into the request's own parameter object; what is carried from one
   request to the next is the driver with its option-level defaults *)
Record drv := mkDrv { dv_headers : cfg; dv_cookies : cookies; dv_ua : bytes }.
Record params := mkPar { pa_headers : cfg; pa_cookies : cookies; pa_ua : bytes }.
(* what one request carries: the values under each looked-at name, cookies, user agent *)
Definition sent := (list (list bytes) * cookies * bytes)%type.

Definition open_spec (names : list bytes) (d : drv) (p : params) : drv * sent :=
  (d, (map (wire_spec (dv_headers d) (pa_headers p)) names,
       cookies_spec (dv_cookies d) (pa_cookies p),
       ua_spec (dv_ua d) (pa_ua p))).

Fixpoint history_spec (names : list bytes) (d : drv) (ps : list params) : list sent :=
  match ps with
  | [] => []
  | p :: r => snd (open_spec names d p) :: history_spec names (fst (open_spec names d p)) r
  end.
