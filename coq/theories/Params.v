(* Params.v — query parameters (C10): which parameters a program requires
   (pkg/compiler/visitor.go visitParam, scope.go AddParam, runtime/program.go
   Params / validateParams) and how a supplied Go value becomes an FQL value
   (pkg/runtime/values/helpers.go Parse, reached through runtime.WithParam /
   WithParams).  Definitions only. *)
From Ferret Require Export Value.

(* ------------------------------------------------------------------ *)
(* Part 1: the required-parameter set                                   *)

(* A program as far as parameters are concerned: a tree whose leaves are
   parameter occurrences or anything else (literals, variables) and whose inner
   nodes are any construct with sub-expressions in any syntactic position
   (operator operands, call arguments, FOR source, range bounds, LIMIT values,
   member source / property name / computed property, object literal keys and
   values, WAITFOR event name / options / filter / timeout).  The visitor
   handles a parameter the same way in every position: visitParam calls
   scope.AddParam, which inserts the name into the one set of the program
   (globalScope.params, a Go map used as a set; names are case-sensitive). *)
Inductive shape :=
| SParam (n : bytes)
| SLeaf
| SNode (kids : list shape).

Definition mem (n : bytes) (l : list bytes) : bool := existsb (bytes_eqb n) l.
Definition add_param (n : bytes) (acc : list bytes) : list bytes :=
  if mem n acc then acc else acc ++ [n].

Fixpoint visit (s : shape) (acc : list bytes) : list bytes :=
  match s with
  | SParam n => add_param n acc
  | SLeaf => acc
  | SNode kids =>
      (fix go (l : list shape) (acc : list bytes) : list bytes :=
         match l with [] => acc | k :: r => go r (visit k acc) end) kids acc
  end.
(* Program.Params(): the keys of the set (in no particular order) *)
Definition params_of (p : shape) : list bytes := visit p [].

(* every occurrence, with repetitions, in source order: the specification side *)
Fixpoint mentions (s : shape) : list bytes :=
  match s with
  | SParam n => [n]
  | SLeaf => []
  | SNode kids =>
      (fix go (l : list shape) : list bytes :=
         match l with [] => [] | k :: r => mentions k ++ go r end) kids
  end.

(* Program.Run: validateParams runs before anything is evaluated *)
Inductive run_start := Started | Refused (missing : list bytes).
Definition validate (p : shape) (supplied : list bytes) : run_start :=
  match filter (fun n => negb (mem n supplied)) (params_of p) with
  | [] => Started
  | ms => Refused ms
  end.

(* ------------------------------------------------------------------ *)
(* Part 2: Go values and values.Parse                                    *)

Inductive iw := W8 | W16 | W32 | W64 | WInt | WPtr.   (* int8..int64, int / uint, uintptr *)
Definition iw_bits (w : iw) : Z :=
  match w with W8 => 8 | W16 => 16 | W32 => 32 | _ => 64 end.

(* [named] = the value's type is a defined type (type Celsius float64), which
   a Go type switch on the predeclared types does not match. *)
Inductive goval :=
| GNil                                             (* untyped nil *)
| GBool (named : bool) (b : bool)
| GInt (named : bool) (w : iw) (z : Z)
| GUint (named : bool) (w : iw) (z : Z)
| GFloat (named : bool) (single : bool) (bits : N) (* the value as binary64 bits; every float32 is exactly a float64 *)
| GString (named : bool) (s : bytes)
| GTime (sec nsec off : Z)                         (* time.Time; off as in Value.VDate *)
| GBytes (b : bytes)                               (* []byte, nil or not *)
| GSlice (l : list goval)                          (* any other slice type, nil or not *)
| GArray (l : list goval)
| GMap (m : list (goval * goval))                  (* any map type, nil or not; Go iteration order = some order *)
| GPtr (o : option goval)                          (* nil pointer / pointer to a value *)
| GStruct (fs : list (bytes * bool * goval))       (* field name, exported?, value *)
| GIface (g : goval)                               (* a value held in an interface-typed slot *)
| GOther (k : N).                                  (* chan, func, complex, unsafe.Pointer *)

Inductive pout (A : Type) := POk (a : A) | PPanic.
Arguments POk {A} a.
Arguments PPanic {A}.

Definition wrap64 (z : Z) : Z := (z + 2 ^ 63) mod 2 ^ 64 - 2 ^ 63.

(* Object.Set on the insertion-ordered member list *)
Fixpoint obj_set (m : list (bytes * value)) (k : bytes) (v : value) : list (bytes * value) :=
  match m with
  | [] => [(k, v)]
  | (k', v') :: r => if bytes_eqb k' k then (k', v) :: r else (k', v') :: obj_set r k v
  end.

(* strconv.Itoa *)
Fixpoint dec_digits (fuel : nat) (n : N) (acc : bytes) : bytes :=
  match fuel with
  | O => acc
  | S f => let acc' := (48 + n mod 10)%N :: acc in
           if (n / 10 =? 0)%N then acc' else dec_digits f (n / 10)%N acc'
  end.
Definition dec (z : Z) : bytes :=
  if z <? 0 then 45%N :: dec_digits 25 (Z.to_N (- z)) [] else dec_digits 25 (Z.to_N z) [].

(* core.Value.String() of the kinds a map key can sensibly have *)
Definition key_string (v : value) : bytes :=
  match v with
  | VStr s => s
  | VInt z => dec z
  | VBool true => bs "true"
  | VBool false => bs "false"
  | _ => []                                        (* None.String() = ""; other kinds: not modelled *)
  end.

(* values.Parse.  [fx = false]: the pinned tree - the type switch knows the
   predeclared bool, string, int*, float*, time.Time, []interface{},
   map[string]interface{}, []byte, nil; everything else goes through reflect,
   which handles Ptr, Slice/Array, Map, Struct and returns None for every other
   kind (so unsigned integers and values of defined scalar types become None),
   and reads every struct field with Value.Interface(), which panics on an
   unexported field.  [fx = true]: the proposed repair - scalar kinds are also
   recognised through reflect (Bool, Int*, Uint*, Float*, String) and unexported
   fields are skipped. *)
Fixpoint parse_go (fx : bool) (g : goval) : pout value :=
  match g with
  | GNil => POk VNone
  | GBool named b => if named && negb fx then POk VNone else POk (VBool b)
  | GInt named _ z => if named && negb fx then POk VNone else POk (VInt z)
  | GUint _ _ z => if fx then POk (VInt (wrap64 z)) else POk VNone
  | GFloat named _ bits => if named && negb fx then POk VNone else POk (VFloat bits)
  | GString named s => if named && negb fx then POk VNone else POk (VStr s)
  | GTime s n o => POk (VDate s n o)
  | GBytes b => POk (VBin b)
  | GSlice l | GArray l =>
      match (fix go (l : list goval) : pout (list value) :=
               match l with
               | [] => POk []
               | x :: r =>
                   match parse_go fx x with
                   | POk v => match go r with POk vs => POk (v :: vs) | PPanic => PPanic end
                   | PPanic => PPanic
                   end
               end) l with
      | POk vs => POk (VArr vs)
      | PPanic => PPanic
      end
  | GMap m =>
      match (fix go (m : list (goval * goval)) (acc : list (bytes * value)) : pout (list (bytes * value)) :=
               match m with
               | [] => POk acc
               | (k, v) :: r =>
                   match parse_go fx k with
                   | POk kv =>
                       match parse_go fx v with
                       | POk vv => go r (obj_set acc (key_string kv) vv)
                       | PPanic => PPanic
                       end
                   | PPanic => PPanic
                   end
               end) m [] with
      | POk ms => POk (VObj ms)
      | PPanic => PPanic
      end
  | GPtr None => POk VNone
  | GPtr (Some x) => parse_go fx x
  | GStruct fs =>
      match (fix go (fs : list (bytes * bool * goval)) (acc : list (bytes * value)) : pout (list (bytes * value)) :=
               match fs with
               | [] => POk acc
               | (n, exported, v) :: r =>
                   if exported then
                     match parse_go fx v with
                     | POk vv => go r (obj_set acc n vv)
                     | PPanic => PPanic
                     end
                   else if fx then go r acc
                   else PPanic             (* reflect: cannot return value obtained from unexported field *)
               end) fs [] with
      | POk ms => POk (VObj ms)
      | PPanic => PPanic
      end
  | GIface x => parse_go fx x
  | GOther _ => POk VNone
  end.

Definition parse_go_pinned := parse_go false.
Definition parse_go_spec := parse_go true.

(* The specification: the FQL value corresponding to a Go value. *)
Fixpoint expected (g : goval) : value :=
  match g with
  | GNil => VNone
  | GBool _ b => VBool b
  | GInt _ _ z => VInt z
  | GUint _ _ z => VInt z
  | GFloat _ _ bits => VFloat bits
  | GString _ s => VStr s
  | GTime s n o => VDate s n o
  | GBytes b => VBin b
  | GSlice l | GArray l => VArr (map expected l)
  | GMap m => VObj (map (fun kv => (key_string (expected (fst kv)), expected (snd kv))) m)
  | GPtr None => VNone
  | GPtr (Some x) => expected x
  | GStruct fs =>
      VObj ((fix go (fs : list (bytes * bool * goval)) : list (bytes * value) :=
               match fs with
               | [] => []
               | (n, true, v) :: r => (n, expected v) :: go r
               | (_, false, _) :: r => go r
               end) fs)
  | GIface x => expected x
  | GOther _ => VNone
  end.

(* kinds a map key may have in a supported value: string, integer, bool *)
Definition key_kind (g : goval) : bool :=
  match g with
  | GString _ _ | GInt _ _ _ | GUint _ _ _ | GBool _ _ => true
  | _ => false
  end.

Fixpoint exported_names (fs : list (bytes * bool * goval)) : list bytes :=
  match fs with
  | [] => []
  | (n, true, _) :: r => n :: exported_names r
  | (_, false, _) :: r => exported_names r
  end.

(* values the property speaks about: integers within their width (unsigned
   ones below 2^63, the largest FQL integer), map keys of key kinds that stay
   distinct as strings, distinct field names *)
Fixpoint supportedb (g : goval) : bool :=
  match g with
  | GInt _ w z => (- 2 ^ (iw_bits w - 1) <=? z) && (z <? 2 ^ (iw_bits w - 1))
  | GUint _ w z => (0 <=? z) && (z <? 2 ^ iw_bits w) && (z <? 2 ^ 63)
  | GSlice l | GArray l => forallb supportedb l
  | GMap m =>
      forallb (fun kv => key_kind (fst kv) && supportedb (fst kv) && supportedb (snd kv)) m
      && nodup_keys (map (fun kv => key_string (expected (fst kv))) m)
  | GPtr (Some x) => supportedb x
  | GStruct fs =>
      forallb (fun f => supportedb (snd f)) fs && nodup_keys (exported_names fs)
  | GIface x => supportedb x
  | _ => true
  end.
Definition supported (g : goval) : Prop := supportedb g = true.

(* ---- "returning a parameter reproduces the supplied data": the JSON text of
   RETURN @p, decoded again (numbers without fraction/exponent as integers,
   others as binary64), against the expected value.  Dates and binaries are
   strings in JSON (a nil []byte is null); their exact text is C09's subject,
   not compared here. *)
Fixpoint json_match (e j : value) {struct e} : bool :=
  match e, j with
  | VNone, VNone => true
  | VBool a, VBool b => Bool.eqb a b
  | VInt a, VInt b => a =? b
  | VFloat a, VFloat b => (a =? b)%N || (fscaled a =? fscaled b)
  | VFloat a, VInt b => fscaled a =? int_key b
  | VStr a, VStr b => bytes_eqb a b
  | VDate _ _ _, VStr _ => true
  | VBin _, VStr _ => true
  | VBin [], VNone => true                 (* a nil []byte is null in JSON *)
  | VArr l, VArr l' =>
      (fix go (l : list value) (l' : list value) : bool :=
         match l, l' with
         | [], [] => true
         | x :: xs, y :: ys => json_match x y && go xs ys
         | _, _ => false
         end) l l'
  | VObj m, VObj m' =>
      Nat.eqb (List.length m) (List.length m') &&
      (fix go (m : list (bytes * value)) : bool :=
         match m with
         | [] => true
         | (k, x) :: r =>
             match find (fun kv => bytes_eqb (fst kv) k) m' with
             | Some (_, y) => json_match x y
             | None => false
             end && go r
         end) m
  | _, _ => false
  end.
