(* Heap.v — a small model of the mutable part of pkg/runtime/values: Go slices
   and maps as cells of a heap, with the primitives values.Array / values.Object
   expose (C15).  Definitions only.

   values.Array  = a struct holding a slice header (backing array, offset,
                   length, capacity); several Arrays may share one backing array
                   (Array.Slice does that), and append writes IN PLACE into the
                   backing array when length < capacity.
   values.Object = a struct holding a Go map.
   Scalars (none, bool, int, float, string, datetime, binary) are immutable and
   stored inline. *)
From Ferret Require Export Value.
Local Open Scope nat_scope.

Definition loc := nat.

Inductive hval : Type :=
| HS (v : value)      (* an immutable value stored inline *)
| HA (a : loc)        (* *values.Array *)
| HO (o : loc).       (* *values.Object *)

Inductive cell : Type :=
| CBack (slots : list hval)                 (* backing array; List.length slots = its capacity *)
| CArr (back : loc) (off len cap : nat)     (* Array{items: back[off : off+len : off+cap]} *)
| CObj (m : list (bytes * hval)).           (* Object{value: map} *)

Definition heap := list cell.

Definition cell_at (h : heap) (l : loc) : option cell := nth_error h l.
Definition alloc (h : heap) (c : cell) : heap * loc := (h ++ [c], List.length h).

Fixpoint upd {A : Type} (l : list A) (i : nat) (x : A) : list A :=
  match l, i with
  | [], _ => []
  | _ :: r, O => x :: r
  | y :: r, S k => y :: upd r k x
  end.

(* ---- reading *)
Definition slots_of (h : heap) (b : loc) : list hval :=
  match cell_at h b with Some (CBack s) => s | _ => [] end.
Definition arr_items (h : heap) (a : loc) : list hval :=
  match cell_at h a with
  | Some (CArr b off len _) => firstn len (skipn off (slots_of h b))
  | _ => []
  end.
Definition obj_members (h : heap) (o : loc) : list (bytes * hval) :=
  match cell_at h o with Some (CObj m) => m | _ => [] end.

Fixpoint hget (k : bytes) (m : list (bytes * hval)) : option hval :=
  match m with
  | [] => None
  | (k', v) :: r => if bytes_eqb k' k then Some v else hget k r
  end.
Fixpoint hset (k : bytes) (v : hval) (m : list (bytes * hval)) : list (bytes * hval) :=
  match m with
  | [] => [(k, v)]
  | (k', v') :: r => if bytes_eqb k' k then (k', v) :: r else (k', v') :: hset k v r
  end.
Definition hdel (k : bytes) (m : list (bytes * hval)) : list (bytes * hval) :=
  filter (fun kv => negb (bytes_eqb (fst kv) k)) m.

(* the FQL value a reference stands for; fuel bounds the depth (heaps are
   acyclic: FQL cannot build a cyclic value) *)
Fixpoint deep (fuel : nat) (h : heap) (r : hval) : value :=
  match r with
  | HS v => v
  | HA a => match fuel with
            | O => VNone
            | S f => VArr (map (deep f h) (arr_items h a))
            end
  | HO o => match fuel with
            | O => VNone
            | S f => VObj (map (fun kv => (fst kv, deep f h (snd kv))) (obj_members h o))
            end
  end.

(* ---- allocation: NewArray(cap), NewObject() *)
Definition h_new_array (h : heap) (cap : nat) : heap * loc :=
  let (h1, b) := alloc h (CBack (repeat (HS VNone) cap)) in
  alloc h1 (CArr b 0 0 cap).
Definition h_new_object (h : heap) : heap * loc := alloc h (CObj []).

(* ---- the in-place primitives (mutators) *)
(* Array.Push: t.items = append(t.items, item) *)
Definition h_push (h : heap) (a : loc) (x : hval) : heap :=
  match cell_at h a with
  | Some (CArr b off len cap) =>
      if len <? cap then
        (* room left: the slot after the last element of the backing array is overwritten *)
        let h1 := upd h b (CBack (upd (slots_of h b) (off + len) x)) in
        upd h1 a (CArr b off (S len) cap)
      else
        (* full: a new, larger backing array receives a copy *)
        let newcap := S (2 * cap) in
        let its := arr_items h a in
        let (h1, b') := alloc h (CBack (its ++ x :: repeat (HS VNone) (newcap - S len))) in
        upd h1 a (CArr b' 0 (S len) newcap)
  | _ => h
  end.
(* Array.Set(idx, v): t.items[idx] = v *)
Definition h_set (h : heap) (a : loc) (i : nat) (x : hval) : heap :=
  match cell_at h a with
  | Some (CArr b off len _) =>
      if i <? len then upd h b (CBack (upd (slots_of h b) (off + i) x)) else h
  | _ => h
  end.
(* Array.RemoveAt(i): append(items[:i], items[i+1:]...) shifts the tail left in place *)
Definition h_remove_at (h : heap) (a : loc) (i : nat) : heap :=
  match cell_at h a with
  | Some (CArr b off len cap) =>
      if i <? len then
        let s := slots_of h b in
        let tail := firstn (len - S i) (skipn (off + S i) s) in
        let s' := firstn (off + i) s ++ tail ++ skipn (off + i + List.length tail) s in
        upd (upd h b (CBack s')) a (CArr b off (len - 1) cap)
      else h
  | _ => h
  end.
(* Object.Set / Object.Remove *)
Definition h_obj_set (h : heap) (o : loc) (k : bytes) (x : hval) : heap :=
  match cell_at h o with
  | Some (CObj m) => upd h o (CObj (hset k x m))
  | _ => h
  end.
Definition h_obj_remove (h : heap) (o : loc) (k : bytes) : heap :=
  match cell_at h o with
  | Some (CObj m) => upd h o (CObj (hdel k m))
  | _ => h
  end.

(* ---- primitives that allocate but do not write existing cells *)
(* Array.Slice(from, to): a new Array struct over the SAME backing array *)
Definition h_slice (h : heap) (a : loc) (from to : nat) : heap * loc :=
  match cell_at h a with
  | Some (CArr b off len cap) => alloc h (CArr b (off + from) (to - from) (cap - from))
  | _ => alloc h (CArr 0 0 0 0)
  end.

(* ---- a DSL of straight-line programs over registers holding references *)
Definition reg := nat.
Inductive instr : Type :=
| INewArray (dst : reg) (cap : nat)
| INewObject (dst : reg)
| IGet (dst a : reg) (i : nat)              (* dst := a.Get(i) *)
| IObjGet (dst o : reg) (k : bytes)         (* dst := o.Get(k) *)
| ISlice (dst a : reg) (from to : nat)      (* dst := a.Slice(from, to): shares storage *)
| IConst (dst : reg) (v : value)
| IPush (a x : reg)                         (* mutators from here on *)
| ISet (a : reg) (i : nat) (x : reg)
| IRemoveAt (a : reg) (i : nat)
| IObjSet (o : reg) (k : bytes) (x : reg)
| IObjRemove (o : reg) (k : bytes).

Definition is_mutator (i : instr) : bool :=
  match i with
  | IPush _ _ | ISet _ _ _ | IRemoveAt _ _ | IObjSet _ _ _ | IObjRemove _ _ => true
  | _ => false
  end.

Definition state := (heap * list hval)%type.
Definition rget (rs : list hval) (r : reg) : hval := nth r rs (HS VNone).
Fixpoint rset (rs : list hval) (r : reg) (x : hval) : list hval :=
  match rs, r with
  | [], O => [x]
  | [], S k => HS VNone :: rset [] k x
  | _ :: t, O => x :: t
  | y :: t, S k => y :: rset t k x
  end.
Definition aloc (x : hval) : loc := match x with HA a => a | HO o => o | HS _ => 0 end.

Definition exec (i : instr) (st : state) : state :=
  let (h, rs) := st in
  match i with
  | INewArray d cap => let (h', a) := h_new_array h cap in (h', rset rs d (HA a))
  | INewObject d => let (h', o) := h_new_object h in (h', rset rs d (HO o))
  | IGet d a i => (h, rset rs d (nth i (arr_items h (aloc (rget rs a))) (HS VNone)))
  | IObjGet d o k => (h, rset rs d (match hget k (obj_members h (aloc (rget rs o))) with
                                     | Some v => v | None => HS VNone end))
  | ISlice d a from to => let (h', s) := h_slice h (aloc (rget rs a)) from to in (h', rset rs d (HA s))
  | IConst d v => (h, rset rs d (HS v))
  | IPush a x => (h_push h (aloc (rget rs a)) (rget rs x), rs)
  | ISet a i x => (h_set h (aloc (rget rs a)) i (rget rs x), rs)
  | IRemoveAt a i => (h_remove_at h (aloc (rget rs a)) i, rs)
  | IObjSet o k x => (h_obj_set h (aloc (rget rs o)) k (rget rs x), rs)
  | IObjRemove o k => (h_obj_remove h (aloc (rget rs o)) k, rs)
  end.
Definition run (p : list instr) (st : state) : state := fold_left (fun s i => exec i s) p st.

(* ---- "nothing that existed before has changed" *)
Definition frame (n : nat) (h h' : heap) : Prop :=
  forall l, (l < n)%nat -> cell_at h' l = cell_at h l.

(* references stored in the first n cells point below n (no dangling or forward
   references: the heap of a call's arguments is closed) *)
Definition ref_below (n : nat) (r : hval) : Prop :=
  match r with HS _ => True | HA a => (a < n)%nat | HO o => (o < n)%nat end.
Definition cell_below (n : nat) (c : cell) : Prop :=
  match c with
  | CBack s => Forall (ref_below n) s
  | CArr b _ _ _ => (b < n)%nat
  | CObj m => Forall (fun kv => ref_below n (snd kv)) m
  end.
Definition closed (n : nat) (h : heap) : Prop :=
  forall l c, (l < n)%nat -> cell_at h l = Some c -> cell_below n c.

(* ---- the shape of every "copy, then mutate the copy" library function:
   a new array is allocated and the selected items are pushed into it *)
Definition h_build (h : heap) (cap : nat) (xs : list hval) : heap * loc :=
  let (h1, a) := h_new_array h cap in
  (fold_left (fun hh x => h_push hh a x) xs h1, a).
