(* Utf8.v — unicode/utf8.DecodeRune as far as JSON encoding needs it: is there a
   valid UTF-8 sequence at the head of a byte string, and how long is it.
   Definitions only. *)
From Ferret Require Export Base.

Definition in_rng (lo hi b : N) : bool := ((lo <=? b) && (b <=? hi))%N.
Definition cont (b : N) : bool := in_rng 128 191 b.

(* number of bytes of the valid sequence at the head of s; 0 when DecodeRune
   returns (RuneError, 1): invalid first byte, bad continuation, overlong form,
   surrogate, above U+10FFFF, or truncated input *)
Definition utf8_seq (s : bytes) : nat :=
  match s with
  | [] => 0
  | b0 :: r =>
      if (b0 <? 128)%N then 1
      else if in_rng 194 223 b0 then
        match r with b1 :: _ => if cont b1 then 2 else 0 | _ => 0 end
      else if in_rng 224 239 b0 then
        match r with
        | b1 :: b2 :: _ =>
            let lo := if (b0 =? 224)%N then 160%N else 128%N in
            let hi := if (b0 =? 237)%N then 159%N else 191%N in
            if in_rng lo hi b1 && cont b2 then 3 else 0
        | _ => 0
        end
      else if in_rng 240 244 b0 then
        match r with
        | b1 :: b2 :: b3 :: _ =>
            let lo := if (b0 =? 240)%N then 144%N else 128%N in
            let hi := if (b0 =? 244)%N then 143%N else 191%N in
            if in_rng lo hi b1 && cont b2 && cont b3 then 4 else 0
        | _ => 0
        end
      else 0
  end.

(* a byte string cut into units: a valid sequence (1 to 4 bytes) or one bad byte *)
Inductive unit8 : Type :=
| UOk (u : bytes)
| UBad (b : N).

Fixpoint units (fuel : nat) (s : bytes) : list unit8 :=
  match fuel with
  | O => []
  | S f =>
      match s with
      | [] => []
      | b :: r =>
          match utf8_seq s with
          | O => UBad b :: units f r
          | S k => UOk (b :: firstn k r) :: units f (skipn k r)
          end
      end
  end.
Definition segs (s : bytes) : list unit8 := units (length s) s.

Definition unit_bytes (u : unit8) : bytes := match u with UOk u => u | UBad b => [b] end.
Definition unit_good (u : unit8) : bool := match u with UOk _ => true | UBad _ => false end.

Definition valid_utf8 (s : bytes) : bool := forallb unit_good (segs s).

(* U+FFFD as UTF-8 *)
Definition replacement : bytes := [239; 191; 189]%N.
(* what a reader of the JSON text gets back: invalid bytes became U+FFFD *)
Definition coerce_unit (u : unit8) : bytes := match u with UOk u => u | UBad _ => replacement end.
Definition coerce (s : bytes) : bytes := concat (map coerce_unit (segs s)).

(* encode a code point (for \uXXXX escapes met by the parser) *)
Definition utf8_encode (r : N) : bytes :=
  (if r <? 128 then [r]
   else if r <? 2048 then [192 + r / 64; 128 + r mod 64]
   else if r <? 65536 then [224 + r / 4096; 128 + (r / 64) mod 64; 128 + r mod 64]
   else [240 + r / 262144; 128 + (r / 4096) mod 64; 128 + (r / 64) mod 64; 128 + r mod 64])%N.
