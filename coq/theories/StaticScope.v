(* StaticScope.v — static name resolution of the compiler's visitor
   (pkg/compiler/visitor.go + scope.go) over the AST of Syntax.v.
   [chk_* true]  is the SPECIFIED resolution (every use must be declared in an
   enclosing scope at the point of use; what the run-time scope chain provides);
   [chk_* false] mirrors the pinned visitor where it differs:
     - LET x = e declares x before resolving e,
     - LIMIT operands are resolved in the loop's scope although they are
       evaluated in the enclosing one,
     - the default INTO projection {v: v} is built without a visibility check.
   Definitions only. *)
From Ferret Require Export Syntax Eval.

Inductive cres := COk | CNotFound | CNotUnique | CUnnamed | CFuel.

Definition sframes := list (list name).          (* innermost first *)

Definition in_frame (x : name) (f : list name) : bool := existsb (bytes_eqb x) f.
Fixpoint visible (x : name) (sc : sframes) : bool :=
  match sc with
  | [] => false
  | f :: r => in_frame x f || visible x r
  end.
Definition sfork (sc : sframes) : sframes := [] :: sc.

Definition ign : name := bs "_".

(* scope.SetVariable: the ignore variable is never recorded *)
Definition declare (x : name) (sc : sframes) : cres * sframes :=
  if bytes_eqb x ign then (COk, sc)
  else match sc with
       | [] => (COk, [[x]])
       | f :: r => if in_frame x f then (CNotUnique, sc) else (COk, (x :: f) :: r)
       end.
Definition clear_top (sc : sframes) : sframes :=
  match sc with [] => [[]] | _ :: r => [] :: r end.

Definition seq (a : cres) (b : unit -> cres) : cres :=
  match a with COk => b tt | e => e end.

Fixpoint declare_all (xs : list name) (sc : sframes) : cres * sframes :=
  match xs with
  | [] => (COk, sc)
  | x :: r => match declare x sc with
              | (COk, sc') => declare_all r sc'
              | (e, sc') => (e, sc')
              end
  end.

Section Check.
  Variable spec : bool.
  (* collect_ok = false rejects every COLLECT: used only to state the soundness
     theorem for the COLLECT-free fragment (Proofs/ScopeSound.v) *)
  Variable collect_ok : bool.

  Fixpoint chk_expr (fuel : nat) (e : expr) (sc : sframes) {struct fuel} : cres :=
    match fuel with
    | O => CFuel
    | S fuel' =>
        let go := fun e => chk_expr fuel' e sc in
        let go_list := (fix gl (es : list expr) : cres :=
                          match es with [] => COk | x :: r => seq (go x) (fun _ => gl r) end) in
        match e with
        | ENone | EBool _ | EInt _ | EFloat _ | EStr _ | EParam _ => COk
        | EArr es => go_list es
        | EObj ps =>
            (fix gp (ps : list prop) : cres :=
               match ps with
               | [] => COk
               | PNamed _ v :: r => seq (go v) (fun _ => gp r)
               | PComputed k v :: r => seq (go k) (fun _ => seq (go v) (fun _ => gp r))
               | PShort x :: r => if visible x sc then gp r else CNotFound
               end) ps
        | EVar x => if visible x sc then COk else CNotFound
        | EUn _ a => go a
        | ELog _ a b | ECmp _ a b | EIn _ a b | EQuant _ _ a b | ELike _ a b | ERegex _ a b
        | EMath _ a b | ERange a b => seq (go a) (fun _ => go b)
        | ECond c t f =>
            seq (go c) (fun _ => seq (match t with Some t' => go t' | None => COk end) (fun _ => go f))
        | EMember src path =>
            seq (go src) (fun _ =>
              (fix gs (p : list seg) : cres :=
                 match p with [] => COk | Seg _ se :: r => seq (go se) (fun _ => gs r) end) path)
        | ECall _ args => go_list args
        | ESuppress a => go a
        | ESub q => chk_for fuel' q sc
        end
    end
  (* a loop: the chain of data sources ForExpression builds (Eval.build_ds) is
     resolved from the inside out; the result is the loop's scope after the
     last clause, in which the RETURN / nested FOR is resolved *)
  with chk_for (fuel : nat) (q : forq) (sc : sframes) {struct fuel} : cres :=
    match fuel with
    | O => CFuel
    | S fuel' =>
        let '(d, ret_) :=
          match q with
          | ForIn vv kv src body r => (build_ds (DIn vv kv src) vv body, r)
          | ForWhile vv dof cond body r => (build_ds (DWhile dof vv cond) vv body, r)
          end in
        match chk_ds fuel' d sc with
        | (COk, fs) =>
            match ret_ with
            | RReturn _ e => chk_expr fuel' e fs
            | RFor q' => chk_for fuel' q' fs
            end
        | (err, _) => err
        end
    end
  with chk_ds (fuel : nat) (d : dsrc) (sc : sframes) {struct fuel} : cres * sframes :=
    match fuel with
    | O => (CFuel, sc)
    | S fuel' =>
        let chk_list fs := (fix gl (es : list expr) : cres :=
                              match es with [] => COk | x :: r => seq (chk_expr fuel' x fs) (fun _ => gl r) end) in
        match d with
        | DIn vv kv e =>
            match chk_expr fuel' e sc with
            | COk =>
                if bytes_eqb vv [] then (CUnnamed, sc) else
                match declare vv (sfork sc) with
                | (COk, fs0) => match kv with Some k => declare k fs0 | None => (COk, fs0) end
                | r => r
                end
            | err => (err, sc)
            end
        | DWhile _ vv cond =>
            match chk_expr fuel' cond sc with
            | COk => if bytes_eqb vv [] then (CUnnamed, sc) else declare vv (sfork sc)
            | err => (err, sc)
            end
        | DBlock d0 ss =>
            match chk_ds fuel' d0 sc with
            | (COk, fs) =>
                (fix stmts (ss : list fclause) (fs : sframes) : cres * sframes :=
                   match ss with
                   | [] => (COk, fs)
                   | CLet x e :: r =>
                       if spec then
                         match chk_expr fuel' e fs with
                         | COk => match declare x fs with (COk, fs') => stmts r fs' | err => err end
                         | err => (err, fs)
                         end
                       else
                         match declare x fs with
                         | (COk, fs') => match chk_expr fuel' e fs' with COk => stmts r fs' | err => (err, fs') end
                         | err => err
                         end
                   | CCall e :: r => match chk_expr fuel' e fs with COk => stmts r fs | err => (err, fs) end
                   | _ :: r => stmts r fs
                   end) ss fs
            | r => r
            end
        | DFilter d0 e =>
            match chk_ds fuel' d0 sc with
            | (COk, fs) => (chk_expr fuel' e fs, fs)
            | r => r
            end
        | DSort d0 ks =>
            match chk_ds fuel' d0 sc with
            | (COk, fs) => (chk_list fs (map fst ks), fs)
            | r => r
            end
        | DLimit d0 cnt off =>
            match chk_ds fuel' d0 sc with
            | (COk, fs) =>
                let lsc := if spec then sc else fs in
                (seq (chk_expr fuel' off lsc) (fun _ => chk_expr fuel' cnt lsc), fs)
            | r => r
            end
        | DCollect d0 gs t vv =>
            if negb collect_ok then (CNotFound, sc) else
            match chk_ds fuel' d0 sc with
            | (COk, fs) =>
                match seq (chk_list fs (map snd gs)) (fun _ =>
                        match t with
                        | CTInto _ (Some pe) => chk_expr fuel' pe fs
                        | CTInto _ None => if spec then (if visible vv fs then COk else CNotFound) else COk
                        | CTAggr sels =>
                            (fix ga (ss : list (name * name * list expr)) : cres :=
                               match ss with
                               | [] => COk
                               | (_, _, args) :: sr => seq (chk_list fs args) (fun _ => ga sr)
                               end) sels
                        | _ => COk
                        end) with
                | COk =>
                    let vars := map fst gs ++
                                match t with
                                | CTInto x _ => [x]
                                | CTCount x => [x]
                                | CTAggr sels => map (fun s => fst (fst s)) sels
                                | CTNone => []
                                end in
                    (* COLLECT outputs are Identifier tokens in the grammar: never the ignore variable *)
                    if existsb (fun x => bytes_eqb x ign) vars then (CUnnamed, fs)
                    else declare_all vars (clear_top fs)
                | err => (err, fs)
                end
            | r => r
            end
        end
    end.

  Definition chk_program (fuel : nat) (p : program) : cres :=
    (fix stmts (ss : list stmt) (sc : sframes) : cres :=
       match ss with
       | [] => match p_ret p with
               | BReturn e => chk_expr fuel e sc
               | BFor q => chk_for fuel q sc
               end
       | SLet x e :: r =>
           if spec then
             seq (chk_expr fuel e sc) (fun _ =>
               match declare x sc with (COk, sc') => stmts r sc' | (err, _) => err end)
           else
             match declare x sc with
             | (COk, sc') => seq (chk_expr fuel e sc') (fun _ => stmts r sc')
             | (err, _) => err
             end
       | SCall e :: r => seq (chk_expr fuel e sc) (fun _ => stmts r sc)
       end) (p_stmts p) [[]].
End Check.

(* the checker the correspondence uses: COLLECT allowed *)
Notation chk_program_all := (fun spec => chk_program spec true).
