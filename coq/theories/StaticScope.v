(* StaticScope.v — static name resolution of the compiler's visitor
   (pkg/compiler/visitor.go + scope.go) over the AST of Syntax.v.
   [chk_* true]  is the SPECIFIED resolution (every use must be declared in an
   enclosing scope at the point of use; what the run-time scope chain provides);
   [chk_* false] mirrors the pinned visitor where it differs:
     - LET x = e declares x before resolving e,
     - LIMIT operands are resolved in the loop's scope although they are
       evaluated in the enclosing one,
     - the default INTO projection {v: v} is built without a visibility check.
   Definitions only. *)
From Ferret Require Export Syntax.

Inductive cres := COk | CNotFound | CNotUnique.

Definition sframes := list (list name).          (* innermost first *)

Definition in_frame (x : name) (f : list name) : bool := existsb (bytes_eqb x) f.
Fixpoint visible (x : name) (sc : sframes) : bool :=
  match sc with
  | [] => false
  | f :: r => in_frame x f || visible x r
  end.
Definition sfork (sc : sframes) : sframes := [] :: sc.

Definition ign : name := bs "_".

(* scope.SetVariable: the ignore variable is never recorded *)
Definition declare (x : name) (sc : sframes) : cres * sframes :=
  if bytes_eqb x ign then (COk, sc)
  else match sc with
       | [] => (COk, [[x]])
       | f :: r => if in_frame x f then (CNotUnique, sc) else (COk, (x :: f) :: r)
       end.
Definition clear_top (sc : sframes) : sframes :=
  match sc with [] => [[]] | _ :: r => [] :: r end.

Definition seq (a : cres) (b : unit -> cres) : cres :=
  match a with COk => b tt | e => e end.

Fixpoint declare_all (xs : list name) (sc : sframes) : cres * sframes :=
  match xs with
  | [] => (COk, sc)
  | x :: r => match declare x sc with
              | (COk, sc') => declare_all r sc'
              | (e, sc') => (e, sc')
              end
  end.

Section Check.
  Variable spec : bool.

  Fixpoint chk_expr (fuel : nat) (e : expr) (sc : sframes) {struct fuel} : cres :=
    match fuel with
    | O => COk
    | S fuel' =>
        let go := fun e => chk_expr fuel' e sc in
        let go_list := (fix gl (es : list expr) : cres :=
                          match es with [] => COk | x :: r => seq (go x) (fun _ => gl r) end) in
        match e with
        | ENone | EBool _ | EInt _ | EFloat _ | EStr _ | EParam _ => COk
        | EArr es => go_list es
        | EObj ps =>
            (fix gp (ps : list prop) : cres :=
               match ps with
               | [] => COk
               | PNamed _ v :: r => seq (go v) (fun _ => gp r)
               | PComputed k v :: r => seq (go k) (fun _ => seq (go v) (fun _ => gp r))
               | PShort x :: r => if visible x sc then gp r else CNotFound
               end) ps
        | EVar x => if visible x sc then COk else CNotFound
        | EUn _ a => go a
        | ELog _ a b | ECmp _ a b | EIn _ a b | EQuant _ _ a b | ELike _ a b | ERegex _ a b
        | EMath _ a b | ERange a b => seq (go a) (fun _ => go b)
        | ECond c t f =>
            seq (go c) (fun _ => seq (match t with Some t' => go t' | None => COk end) (fun _ => go f))
        | EMember src path =>
            seq (go src) (fun _ =>
              (fix gs (p : list seg) : cres :=
                 match p with [] => COk | Seg _ se :: r => seq (go se) (fun _ => gs r) end) path)
        | ECall _ args => go_list args
        | ESuppress a => go a
        | ESub q => chk_for fuel' q sc
        end
    end
  with chk_for (fuel : nat) (q : forq) (sc : sframes) {struct fuel} : cres :=
    match fuel with
    | O => COk
    | S fuel' =>
        let '(pre, vv, kv, body, ret_) :=
          match q with
          | ForIn vv kv src body r => (chk_expr fuel' src sc, vv, kv, body, r)
          | ForWhile vv _ cond body r => (chk_expr fuel' cond sc, vv, None, body, r)
          end in
        seq pre (fun _ =>
          match declare vv (sfork sc) with
          | (COk, fs0) =>
              match (match kv with Some k => declare k fs0 | None => (COk, fs0) end) with
              | (COk, fs1) =>
                  (fix clauses (cs : list fclause) (fs : sframes) : cres :=
                     match cs with
                     | [] =>
                         match ret_ with
                         | RReturn _ e => chk_expr fuel' e fs
                         | RFor q' => chk_for fuel' q' fs
                         end
                     | c :: r =>
                         match c with
                         | CLet x e =>
                             if spec then
                               seq (chk_expr fuel' e fs) (fun _ =>
                                 match declare x fs with (COk, fs') => clauses r fs' | (err, _) => err end)
                             else
                               match declare x fs with
                               | (COk, fs') => seq (chk_expr fuel' e fs') (fun _ => clauses r fs')
                               | (err, _) => err
                               end
                         | CCall e | CFilter e => seq (chk_expr fuel' e fs) (fun _ => clauses r fs)
                         | CSort ks =>
                             seq ((fix gk (ks : list (expr * bool)) : cres :=
                                     match ks with [] => COk | (e, _) :: kr => seq (chk_expr fuel' e fs) (fun _ => gk kr) end) ks)
                                 (fun _ => clauses r fs)
                         | CLimit off cnt =>
                             let lsc := if spec then sc else fs in
                             seq (match off with Some o => chk_expr fuel' o lsc | None => COk end) (fun _ =>
                               seq (chk_expr fuel' cnt lsc) (fun _ => clauses r fs))
                         | CCollect gs t =>
                             seq ((fix gg (gs : list (name * expr)) : cres :=
                                     match gs with [] => COk | (_, e) :: gr => seq (chk_expr fuel' e fs) (fun _ => gg gr) end) gs)
                               (fun _ =>
                                seq (match t with
                                     | CTInto _ (Some pe) => chk_expr fuel' pe fs
                                     | CTInto _ None => if spec then (if visible vv fs then COk else CNotFound) else COk
                                     | CTAggr sels =>
                                         (fix ga (ss : list (name * name * list expr)) : cres :=
                                            match ss with
                                            | [] => COk
                                            | (_, _, args) :: sr =>
                                                seq ((fix gl (es : list expr) : cres :=
                                                        match es with [] => COk | a :: ar => seq (chk_expr fuel' a fs) (fun _ => gl ar) end) args)
                                                    (fun _ => ga sr)
                                            end) sels
                                     | _ => COk
                                     end)
                                  (fun _ =>
                                     let vars := map fst gs ++
                                                 match t with
                                                 | CTInto x _ => [x]
                                                 | CTCount x => [x]
                                                 | CTAggr sels => map (fun s => fst (fst s)) sels
                                                 | CTNone => []
                                                 end in
                                     match declare_all vars (clear_top fs) with
                                     | (COk, fs') => clauses r fs'
                                     | (err, _) => err
                                     end))
                         end
                     end) body fs1
              | (err, _) => err
              end
          | (err, _) => err
          end)
    end.

  Definition chk_program (fuel : nat) (p : program) : cres :=
    (fix stmts (ss : list stmt) (sc : sframes) : cres :=
       match ss with
       | [] => match p_ret p with
               | BReturn e => chk_expr fuel e sc
               | BFor q => chk_for fuel q sc
               end
       | SLet x e :: r =>
           if spec then
             seq (chk_expr fuel e sc) (fun _ =>
               match declare x sc with (COk, sc') => stmts r sc' | (err, _) => err end)
           else
             match declare x sc with
             | (COk, sc') => seq (chk_expr fuel e sc') (fun _ => stmts r sc')
             | (err, _) => err
             end
       | SCall e :: r => seq (chk_expr fuel e sc) (fun _ => stmts r sc)
       end) (p_stmts p) [[]].
End Check.
