(* Lexer.v — reference lexer of FQL (pkg/parser/antlr/FqlLexer.g4 as the
   generated lexer reads it, behind pkg/parser/case_changing_stream.go).

   * The input is the rune sequence of the query ([]rune(query): every invalid
     UTF-8 byte is U+FFFD).  Token KINDS are decided on the upper-cased view
     [up] of the runes (CaseChangingStream.LA); token TEXT is the original
     slice, never folded (Token.GetText reads the underlying stream).
   * Case folding: unicode.ToUpper restricted to what the grammar can see.
     Only a-z, U+0131 (dotless i -> I) and U+017F (long s -> S) are mapped
     onto characters the lexer rules mention; every other rune stays outside
     all character sets of the grammar whether folded or not.  (The harness
     re-derives this list from Go's unicode tables on every run.)
   * Maximal munch, ties to the rule listed first; `.*?` in block comments is
     non-greedy; the catch-all rule UnknownIdentifier makes lexing total.
   * Hidden channel: block comments, line comments, [\t\v\f  ]+, line
     terminators (\r \n U+2028 U+2029).
   * Identifier is the recursive rule of the grammar
       Letter+ (Symbols Identifier* )* (Digit Identifier* )*
     implemented by a stack machine ([ident_go]): a_b1_c is one identifier,
     a1_b is a1 followed by _ and b.
   Definitions only; lemmas in Proofs/LexerProofs.v. *)
From Ferret Require Export Base.
Local Open Scope N_scope.

Inductive kind :=
| KColon | KSemi | KDot | KComma | KLBrack | KRBrack | KLParen | KRParen | KLBrace | KRBrace
| KGt | KLt | KEq | KGte | KLte | KNeq
| KMulti | KDiv | KMod | KPlus | KMinus | KMinusMinus | KPlusPlus
| KAnd | KOr | KRange | KAssign | KQuestion | KRegexNotMatch | KRegexMatch
| KFor | KReturn | KWaitfor | KOptions | KTimeout | KDistinct | KFilter | KCurrent | KSort
| KLimit | KLet | KCollect | KSortDir | KNone | KNull | KBool | KUse
| KInto | KKeep | KWith | KCount | KAll | KAny | KAggregate | KEvent
| KLike | KNot | KIn | KDo | KWhile
| KParam | KIdent | KIgnore | KString | KInt | KFloat | KNsSeg | KUnknown.

(* the token type numbers of the generated lexer (FqlLexer.tokens) *)
Definition kind_code (k : kind) : N :=
  match k with
  | KColon => 5 | KSemi => 6 | KDot => 7 | KComma => 8 | KLBrack => 9 | KRBrack => 10
  | KLParen => 11 | KRParen => 12 | KLBrace => 13 | KRBrace => 14
  | KGt => 15 | KLt => 16 | KEq => 17 | KGte => 18 | KLte => 19 | KNeq => 20
  | KMulti => 21 | KDiv => 22 | KMod => 23 | KPlus => 24 | KMinus => 25
  | KMinusMinus => 26 | KPlusPlus => 27
  | KAnd => 28 | KOr => 29 | KRange => 30 | KAssign => 31 | KQuestion => 32
  | KRegexNotMatch => 33 | KRegexMatch => 34
  | KFor => 35 | KReturn => 36 | KWaitfor => 37 | KOptions => 38 | KTimeout => 39
  | KDistinct => 40 | KFilter => 41 | KCurrent => 42 | KSort => 43 | KLimit => 44
  | KLet => 45 | KCollect => 46 | KSortDir => 47 | KNone => 48 | KNull => 49
  | KBool => 50 | KUse => 51 | KInto => 52 | KKeep => 53 | KWith => 54 | KCount => 55
  | KAll => 56 | KAny => 57 | KAggregate => 58 | KEvent => 59 | KLike => 60
  | KNot => 61 | KIn => 62 | KDo => 63 | KWhile => 64
  | KParam => 65 | KIdent => 66 | KIgnore => 67 | KString => 68 | KInt => 69
  | KFloat => 70 | KNsSeg => 71 | KUnknown => 72
  end.

Definition kind_eqb (a b : kind) : bool := kind_code a =? kind_code b.

(* a token: its kind and its text (UTF-8 bytes of the original slice) *)
Definition token := (kind * bytes)%type.

(* ------------------------------------------------------------------ UTF-8 *)
Definition rune_error : N := 65533.
Definition u_cont (b : N) : bool := (128 <=? b) && (b <=? 191).
Definition u_rng (lo hi b : N) : bool := (lo <=? b) && (b <=? hi).

(* utf8.DecodeRune: (rune, width); (U+FFFD, 1) for an invalid byte *)
Definition decode1 (s : bytes) : N * nat :=
  match s with
  | [] => (rune_error, 0%nat)
  | b0 :: r =>
      if b0 <? 128 then (b0, 1%nat)
      else if b0 <? 194 then (rune_error, 1%nat)
      else if b0 <? 224 then
        match r with
        | b1 :: _ => if u_cont b1 then ((b0 - 192) * 64 + (b1 - 128), 2%nat) else (rune_error, 1%nat)
        | _ => (rune_error, 1%nat)
        end
      else if b0 <? 240 then
        match r with
        | b1 :: b2 :: _ =>
            if u_rng (if b0 =? 224 then 160 else 128) (if b0 =? 237 then 159 else 191) b1 && u_cont b2
            then ((b0 - 224) * 4096 + (b1 - 128) * 64 + (b2 - 128), 3%nat)
            else (rune_error, 1%nat)
        | _ => (rune_error, 1%nat)
        end
      else if b0 <? 245 then
        match r with
        | b1 :: b2 :: b3 :: _ =>
            if u_rng (if b0 =? 240 then 144 else 128) (if b0 =? 244 then 143 else 191) b1
               && u_cont b2 && u_cont b3
            then ((b0 - 240) * 262144 + (b1 - 128) * 4096 + (b2 - 128) * 64 + (b3 - 128), 4%nat)
            else (rune_error, 1%nat)
        | _ => (rune_error, 1%nat)
        end
      else (rune_error, 1%nat)
  end.

(* []rune(s); [k] = bytes of the current sequence still to be skipped *)
Fixpoint runes_go (k : nat) (s : bytes) : list N :=
  match s with
  | [] => []
  | _ :: r =>
      match k with
      | S k' => runes_go k' r
      | O => let d := decode1 s in fst d :: runes_go (snd d - 1) r
      end
  end.
Definition runes_of (s : bytes) : list N := runes_go 0 s.

Definition valid_rune (r : N) : bool := (r <? 55296) || ((57344 <=? r) && (r <=? 1114111)).

(* utf8.AppendRune *)
Definition encode1 (r : N) : bytes :=
  if r <? 128 then [r]
  else if r <? 2048 then [192 + r / 64; 128 + r mod 64]
  else if negb (valid_rune r) then [239; 191; 189]
  else if r <? 65536 then [224 + r / 4096; 128 + (r / 64) mod 64; 128 + r mod 64]
  else [240 + r / 262144; 128 + (r / 4096) mod 64; 128 + (r / 64) mod 64; 128 + r mod 64].

Definition bytes_of (rs : list N) : bytes := flat_map encode1 rs.

(* ------------------------------------------------- the upper-cased view *)
Definition up (r : N) : N :=
  if (97 <=? r) && (r <=? 122) then r - 32
  else if r =? 305 then 73          (* U+0131 dotless i *)
  else if r =? 383 then 83          (* U+017F long s *)
  else r.

Definition is_letter (u : N) : bool := (65 <=? u) && (u <=? 90).     (* on the upper view *)
Definition is_digit (c : N) : bool := (48 <=? c) && (c <=? 57).
Definition is_ws (c : N) : bool :=
  (c =? 9) || (c =? 11) || (c =? 12) || (c =? 32) || (c =? 160).
Definition is_nl (c : N) : bool :=
  (c =? 10) || (c =? 13) || (c =? 8232) || (c =? 8233).

(* ------------------------------------------------------------ identifiers *)
(* [st]: one flag per open nesting level of the recursive rule, deepest first;
   true = that level may still take an underscore group (it has consumed no
   digit yet).  A letter after '_' or a digit opens a nested Identifier; a
   digit belongs to the deepest open level; an underscore belongs to the
   deepest level still in its underscore phase and closes the deeper ones. *)
Fixpoint drop_d (st : list bool) : list bool :=
  match st with
  | false :: t => drop_d t
  | _ => st
  end.

Fixpoint ident_go (s : list N) (prev_letter : bool) (st : list bool) (n : nat) : nat :=
  match s with
  | [] => n
  | c :: r =>
      let u := up c in
      if is_letter u then ident_go r true (if prev_letter then st else true :: st) (S n)
      else if is_digit u then
        ident_go r false (match st with _ :: t => false :: t | [] => [] end) (S n)
      else if u =? 95 then
        match drop_d st with
        | [] => n
        | st' => ident_go r false st' (S n)
        end
      else n
  end.
Definition ident_len (s : list N) : nat := ident_go s false [] 0.

Definition keywords : list (bytes * kind) :=
  [ (bs "AND", KAnd); (bs "OR", KOr); (bs "FOR", KFor); (bs "RETURN", KReturn);
    (bs "WAITFOR", KWaitfor); (bs "OPTIONS", KOptions); (bs "TIMEOUT", KTimeout);
    (bs "DISTINCT", KDistinct); (bs "FILTER", KFilter); (bs "CURRENT", KCurrent);
    (bs "SORT", KSort); (bs "LIMIT", KLimit); (bs "LET", KLet); (bs "COLLECT", KCollect);
    (bs "ASC", KSortDir); (bs "DESC", KSortDir); (bs "NONE", KNone); (bs "NULL", KNull);
    (bs "TRUE", KBool); (bs "FALSE", KBool); (bs "USE", KUse); (bs "INTO", KInto);
    (bs "KEEP", KKeep); (bs "WITH", KWith); (bs "COUNT", KCount); (bs "ALL", KAll);
    (bs "ANY", KAny); (bs "AGGREGATE", KAggregate); (bs "EVENT", KEvent);
    (bs "LIKE", KLike); (bs "NOT", KNot); (bs "IN", KIn); (bs "DO", KDo);
    (bs "WHILE", KWhile) ].

Fixpoint kw_lookup (tbl : list (bytes * kind)) (w : list N) : kind :=
  match tbl with
  | [] => KIdent
  | (k, v) :: r => if bytes_eqb k w then v else kw_lookup r w
  end.
(* kind of a word (letters, digits, underscores) given in any case *)
Definition word_kind (w : list N) : kind := kw_lookup keywords (map up w).

(* --------------------------------------------------------------- strings *)
(* "…" and '…':  q ( \ any | qq | not(q,\) )* q ; [n] runes consumed so far,
   [last] the longest complete literal seen (a doubled quote is also a
   possible end) *)
Fixpoint str_q (q : N) (s : list N) (n : nat) (last : option nat) : option nat :=
  match s with
  | [] => last
  | c :: r =>
      if c =? 92 then
        match r with
        | _ :: r' => str_q q r' (S (S n)) last
        | [] => last
        end
      else if c =? q then
        match r with
        | d :: r' => if d =? q then str_q q r' (S (S n)) (Some (S n)) else Some (S n)
        | [] => Some (S n)
        end
      else str_q q r (S n) last
  end.

(* `…` and ´…´:  q ( \q | not(q) )* q ; a backslash directly before a quote is
   both a possible escape and a possible last character *)
Fixpoint str_b (q : N) (s : list N) (n : nat) (last : option nat) : option nat :=
  match s with
  | [] => last
  | c :: r =>
      if c =? q then Some (S n)
      else if c =? 92 then
        match r with
        | d :: r' => if d =? q then str_b q r' (S (S n)) (Some (S (S n))) else str_b q r (S n) last
        | [] => last
        end
      else str_b q r (S n) last
  end.

(* ------------------------------------------------------------- comments *)
Fixpoint block_end (s : list N) (n : nat) : option nat :=     (* first "*/" *)
  match s with
  | [] => None
  | c :: r =>
      match r with
      | d :: _ => if (c =? 42) && (d =? 47) then Some (S (S n)) else block_end r (S n)
      | [] => None
      end
  end.
Fixpoint line_end (s : list N) (n : nat) : nat :=
  match s with
  | [] => n
  | c :: r => if is_nl c then n else line_end r (S n)
  end.

(* -------------------------------------------------------------- numbers *)
Fixpoint digits_len (s : list N) : nat :=
  match s with
  | c :: r => if is_digit c then S (digits_len r) else O
  | [] => O
  end.
(* ExponentPart: [eE] [+-]? [0-9]+ ; 0 if absent or incomplete *)
Definition exp_len (s : list N) : nat :=
  match s with
  | e :: r =>
      if up e =? 69 then
        match r with
        | sg :: r' =>
            if (sg =? 43) || (sg =? 45) then
              match digits_len r' with O => O | d => S (S d) end
            else match digits_len r with O => O | d => S d end
        | [] => O
        end
      else O
  | [] => O
  end.
(* (is_float, length) for input starting with a digit *)
Definition number_len (s : list N) : bool * nat :=
  let n := digits_len s in
  match s with
  | c :: _ =>
      if (c =? 48) && (1 <? n)%nat then (false, n)            (* 01.. : IntegerLiteral only *)
      else
        match skipn n s with
        | d :: r =>
            if d =? 46 then
              match digits_len r with
              | O => (false, n)
              | m => let k := (n + 1 + m)%nat in (true, (k + exp_len (skipn m r))%nat)
              end
            else
              match exp_len (d :: r) with
              | O => (false, n)
              | x => (true, (n + x)%nat)
              end
        | [] => (false, n)
        end
  | [] => (false, O)
  end.

(* ---------------------------------------------------------- one token *)
(* None = hidden channel.  The length is at least 1 for a non-empty input. *)
Definition next_token (s : list N) : option kind * nat :=
  match s with
  | [] => (None, O)
  | c :: r =>
      let u := up c in
      let one (k : kind) := (Some k, 1%nat) in
      let two (d : N) (k2 k1 : kind) :=
        match r with
        | e :: _ => if e =? d then (Some k2, 2%nat) else (Some k1, 1%nat)
        | [] => (Some k1, 1%nat)
        end in
      if is_ws c || is_nl c then (None, 1%nat)
      else if is_letter u then
        let n := ident_len s in
        match skipn n s with
        | 58 :: 58 :: _ => (Some KNsSeg, S (S n))
        | _ => (Some (word_kind (firstn n s)), n)
        end
      else if is_digit c then
        let '(fl, n) := number_len s in (Some (if fl then KFloat else KInt), n)
      else if c =? 47 then                                   (* / *)
        match r with
        | d :: r' =>
            if d =? 42 then
              match block_end r' 2 with
              | Some n => (None, n)
              | None => one KDiv
              end
            else if d =? 47 then (None, line_end r' 2)
            else one KDiv
        | [] => one KDiv
        end
      else if c =? 34 then match str_q 34 r 1 None with Some n => (Some KString, n) | None => one KUnknown end
      else if c =? 39 then match str_q 39 r 1 None with Some n => (Some KString, n) | None => one KUnknown end
      else if c =? 96 then match str_b 96 r 1 None with Some n => (Some KString, n) | None => one KUnknown end
      else if c =? 180 then match str_b 180 r 1 None with Some n => (Some KString, n) | None => one KUnknown end
      else if c =? 58 then one KColon
      else if c =? 59 then one KSemi
      else if c =? 46 then two 46 KRange KDot
      else if c =? 44 then one KComma
      else if c =? 91 then one KLBrack
      else if c =? 93 then one KRBrack
      else if c =? 40 then one KLParen
      else if c =? 41 then one KRParen
      else if c =? 123 then one KLBrace
      else if c =? 125 then one KRBrace
      else if c =? 62 then two 61 KGte KGt
      else if c =? 60 then two 61 KLte KLt
      else if c =? 61 then
        match r with
        | e :: _ => if e =? 61 then (Some KEq, 2%nat) else if e =? 126 then (Some KRegexMatch, 2%nat) else one KAssign
        | [] => one KAssign
        end
      else if c =? 33 then
        match r with
        | e :: _ => if e =? 61 then (Some KNeq, 2%nat) else if e =? 126 then (Some KRegexNotMatch, 2%nat) else one KNot
        | [] => one KNot
        end
      else if c =? 42 then one KMulti
      else if c =? 37 then one KMod
      else if c =? 43 then two 43 KPlusPlus KPlus
      else if c =? 45 then two 45 KMinusMinus KMinus
      else if c =? 38 then two 38 KAnd KUnknown
      else if c =? 124 then two 124 KOr KUnknown
      else if c =? 63 then one KQuestion
      else if c =? 64 then one KParam
      else if c =? 95 then one KIgnore
      else one KUnknown
  end.

(* ------------------------------------------------------------ the lexer *)
Fixpoint lex_go (fuel : nat) (s : list N) : option (list token) :=
  match fuel with
  | O => None
  | S f =>
      match s with
      | [] => Some []
      | _ =>
          let '(k, n) := next_token s in
          let n := match n with O => 1%nat | _ => n end in
          match lex_go f (skipn n s) with
          | None => None
          | Some ts =>
              match k with
              | None => Some ts
              | Some k => Some ((k, bytes_of (firstn n s)) :: ts)
              end
          end
      end
  end.

Definition lex_runes (rs : list N) : option (list token) := lex_go (S (List.length rs)) rs.

(* the lexer on query text; None never happens (out of fuel) — LexerProofs.lex_total *)
Definition lex (q : bytes) : option (list token) := lex_runes (runes_of q).
