(* Iter.v — the iterators of pkg/runtime/collections as pure state machines over
   an abstract lawful source iterator, and the list-level specifications of the
   FOR pipeline clauses.  Definitions only. *)
From Ferret Require Export Base.

Section Iter.
  Context {A : Type}.

  (* a source iterator: a step function together with the list it will produce *)
  Record source (St : Type) := {
    s_next : St -> option (A * St);
    s_drain : St -> list A;
  }.
  Arguments s_next {St}. Arguments s_drain {St}.

  Definition lawful {St} (src : source St) : Prop :=
    forall s, s_drain src s =
              match s_next src s with None => [] | Some (a, s') => a :: s_drain src s' end.

  (* the array source (IndexedIterator) *)
  Definition list_source : source (list A) :=
    {| s_next := fun l => match l with [] => None | x :: r => Some (x, r) end;
       s_drain := fun l => l |}.

  (* ---- FilterIterator: pull until the predicate holds *)
  Fixpoint filter_next {St} (src : source St) (p : A -> bool) (fuel : nat) (s : St) : option (A * St) :=
    match fuel with
    | O => None
    | S k => match s_next src s with
             | None => None
             | Some (a, s') => if p a then Some (a, s') else filter_next src p k s'
             end
    end.
  Definition filter_source {St} (src : source St) (p : A -> bool) : source St :=
    {| s_next := fun s => filter_next src p (S (length (s_drain src s))) s;
       s_drain := fun s => filter p (s_drain src s) |}.

  (* ---- LimitIterator {count, offset, currCount} *)
  Record lim (St : Type) := { l_cnt : Z; l_off : Z; l_cur : Z; l_src : St }.
  Arguments l_cnt {St}. Arguments l_off {St}. Arguments l_cur {St}. Arguments l_src {St}.

  (* verifyOffset: Some state, or None when the source ran out while skipping *)
  Fixpoint verify_offset {St} (src : source St) (fuel : nat) (st : lim St) : option (lim St) :=
    match fuel with
    | O => Some st
    | S k =>
        if (l_off st =? 0) || negb (l_cur st <? l_off st) then Some st
        else match s_next src (l_src st) with
             | None => None
             | Some (_, s') =>
                 verify_offset src k {| l_cnt := l_cnt st; l_off := l_off st;
                                        l_cur := l_cur st + 1; l_src := s' |}
             end
    end.
  Definition limit_next {St} (src : source St) (st : lim St) : option (A * lim St) :=
    match verify_offset src (S (length (s_drain src (l_src st)))) st with
    | None => None
    | Some st1 =>
        let cur := l_cur st1 + 1 in
        if cur - l_off st1 <=? l_cnt st1 then
          match s_next src (l_src st1) with
          | None => None
          | Some (a, s') => Some (a, {| l_cnt := l_cnt st1; l_off := l_off st1; l_cur := cur; l_src := s' |})
          end
        else None
    end.
  Fixpoint limit_drain {St} (src : source St) (fuel : nat) (st : lim St) : list A :=
    match fuel with
    | O => []
    | S k => match limit_next src st with
             | None => []
             | Some (a, st') => a :: limit_drain src k st'
             end
    end.
  Definition run_limit {St} (src : source St) (o c : Z) (s : St) : list A :=
    limit_drain src (S (length (s_drain src s))) {| l_cnt := c; l_off := o; l_cur := 0; l_src := s |}.

  (* ---- SortIterator: materialise, stable sort (sort.SliceStable with the
     multi-key less-than): an element is inserted before the first element that
     is not smaller than it, elements are processed from the right, so equal
     elements keep their source order *)
  Fixpoint insert_le (lt : A -> A -> bool) (x : A) (l : list A) : list A :=
    match l with
    | [] => [x]
    | y :: r => if negb (lt y x) then x :: l else y :: insert_le lt x r
    end.
  Fixpoint sort_by (lt : A -> A -> bool) (l : list A) : list A :=
    match l with
    | [] => []
    | x :: r => insert_le lt x (sort_by lt r)
    end.

  (* ---- DISTINCT (ForResult with a hash table; hash equality = eqb) *)
  Fixpoint dedup_acc (eqb : A -> A -> bool) (seen : list A) (l : list A) : list A :=
    match l with
    | [] => []
    | x :: r => if existsb (eqb x) seen then dedup_acc eqb seen r
                else x :: dedup_acc eqb (x :: seen) r
    end.
  Definition dedup (eqb : A -> A -> bool) (l : list A) : list A := dedup_acc eqb [] l.

  (* ---- COLLECT: groups in order of first occurrence of their key *)
  Section Collect.
    Context {K : Type} (key : A -> K) (keqb : K -> K -> bool).
    Fixpoint add_to_group (x : A) (gs : list (K * list A)) : list (K * list A) :=
      match gs with
      | [] => [(key x, [x])]
      | (k, m) :: r => if keqb (key x) k then (k, m ++ [x]) :: r else (k, m) :: add_to_group x r
      end.
    Definition collect_groups (l : list A) : list (K * list A) :=
      fold_left (fun gs x => add_to_group x gs) l [].
  End Collect.
End Iter.
