(* Compare.v — model of every Compare method of pkg/runtime/values and of
   types.Compare.  Results are in {-1,0,1} like the Go code. *)
From Ferret Require Export Value.

Definition zcmp (a b : Z) : Z := cmp_to_Z (Z.compare a b).

Definition rank_cmp (a b : value) : Z := zcmp (type_rank a) (type_rank b).

Definition date_cmp (s n s' n' : Z) : Z :=
  match Z.compare s s' with
  | Eq => zcmp n n'
  | c => cmp_to_Z c
  end.

(* cmp works on normal forms (object members sorted by key): there the Go
   algorithm "sort both key sets, walk them in parallel" is a plain parallel
   walk of the two member lists. *)
Fixpoint cmp (a b : value) {struct a} : Z :=
  match a, b with
  | VNone, VNone => 0
  | VBool x, VBool y =>
      if Bool.eqb x y then 0 else if negb x && y then -1 else 1
  | VInt x, VInt y => zcmp x y
  | VInt x, VFloat f => zcmp (int_as_float_key x) (fscaled f)
  | VFloat f, VInt y => zcmp (fscaled f) (int_as_float_key y)
  | VFloat f, VFloat g => zcmp (fscaled f) (fscaled g)
  | VStr x, VStr y => cmp_to_Z (lexcmp x y)
  | VDate s n _, VDate s' n' _ => date_cmp s n s' n'
  | VArr l, VArr l' =>
      match Nat.compare (length l) (length l') with
      | Lt => -1
      | Gt => 1
      | Eq =>
          (fix go (l : list value) (l' : list value) : Z :=
             match l, l' with
             | x :: xs, y :: ys =>
                 let c := cmp x y in if c =? 0 then go xs ys else c
             | _, _ => 0
             end) l l'
      end
  | VObj m, VObj m' =>
      match Nat.compare (length m) (length m') with
      | Lt => -1
      | Gt => 1
      | Eq =>
          (fix go (m : list (bytes * value)) (m' : list (bytes * value)) : Z :=
             match m, m' with
             | (k, x) :: xs, (k', y) :: ys =>
                 match lexcmp k k' with
                 | Eq => let c := cmp x y in if c =? 0 then go xs ys else c
                 | Lt => 1        (* object.go: tKey < otherKey -> res = 1 *)
                 | Gt => -1
                 end
             | _, _ => 0
             end) m m'
      end
  | VBin x, VBin y => cmp_to_Z (Nat.compare (length x) (length y))
  | _, _ => rank_cmp a b
  end.

Definition vcompare (a b : value) : Z := cmp (norm a) (norm b).

(* The comparison operators of operators/equality.go as functions of compare *)
Definition op_eq a b := vcompare a b =? 0.
Definition op_ne a b := negb (vcompare a b =? 0).
Definition op_lt a b := vcompare a b <? 0.
Definition op_le a b := vcompare a b <=? 0.   (* code: out != 1 *)
Definition op_gt a b := vcompare a b >? 0.
Definition op_ge a b := vcompare a b >=? 0.

Definition contains (l : list value) (x : value) : bool :=
  existsb (fun y => vcompare y x =? 0) l.
Definition position (l : list value) (x : value) : Z :=
  index_of (fun y => vcompare y x =? 0) l.

Definition value_leb (a b : value) : bool := vcompare a b <=? 0.
Definition sort_values (l : list value) : list value := isort value_leb l.
Fixpoint sortedb (l : list value) : bool :=
  match l with
  | x :: ((y :: _) as r) => value_leb x y && sortedb r
  | _ => true
  end.
