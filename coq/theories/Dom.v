(* Dom.v — model of the static (HTTP) driver's DOM queries (C18).

   Mirrors pkg/drivers/http/{element,document,xpath}.go and the PARSE-based
   functions of pkg/stdlib/html on the generator's well-formed subset:

   * an element carries its tag, its attribute list exactly as in the source
     (id and class are ordinary attributes, as in html.Node.Attr) and — kept
     apart — its inline style as an ordered key/value list (the "style"
     attribute is the serialisation of that list, common.SerializeStyles);
   * a query context is an element *located* in its document (a zipper), because
     goquery's Find filters the descendants of the context but a compound CSS
     selector is matched against the whole ancestor chain (cascadia walks
     n.Parent to the root), while htmlquery evaluates an XPath with the context
     node as the navigator's root;
   * the accessor family is defined from [select_all] (document order =
     pre-order of the descendants of the context).

   Definitions only; lemmas are in Proofs/DomProofs.v.  HTML5 tree
   construction, cascadia and the XPath engine are oracles: the model states
   what they answer on the generated subset and the correspondence check
   compares. *)
From Ferret Require Import Base.

(* ---------- trees *)
Record hdr := mkH {
  h_tag : bytes;
  h_attrs : list (bytes * bytes);   (* every attribute but style, source order *)
  h_style : list (bytes * bytes)    (* inline style declarations, source order *)
}.

Inductive node :=
| T (s : bytes)                      (* text node *)
| E (h : hdr) (kids : list node).    (* element *)

(* zipper: the element in focus, and for every ancestor (nearest first) its
   header, the siblings to the left (nearest first) and to the right *)
Record frame := mkF { f_h : hdr; f_left : list node; f_right : list node }.
Record loc := mkL { l_h : hdr; l_kids : list node; l_ctx : list frame }.

(* outcome of an accessor: Go error ErrNotFound, or a fatal crash of the process *)
Inductive res (A : Type) := Ok (a : A) | NotFound | Crash.
Arguments Ok {A} a. Arguments NotFound {A}. Arguments Crash {A}.

Definition node_of (d : loc) : node := E (l_h d) (l_kids d).

(* the document a located element lives in *)
Fixpoint plug (n : node) (fs : list frame) : node :=
  match fs with
  | [] => n
  | f :: up => plug (E (f_h f) (rev (f_left f) ++ n :: f_right f)) up
  end.

Definition empty_hdr : hdr := mkH [] [] [].
Definition to_loc (n : node) : loc :=
  match n with E h k => mkL h k [] | T _ => mkL empty_hdr [] [] end.
Definition reroot (d : loc) : loc := to_loc (plug (node_of d) (l_ctx d)).

(* element and all element descendants, pre-order, each with its context *)
Fixpoint locs_of (n : node) (fs : list frame) {struct n} : list loc :=
  match n with
  | T _ => []
  | E h kids =>
      mkL h kids fs ::
      (fix go (l rest : list node) {struct rest} : list loc :=
         match rest with
         | [] => []
         | k :: r => locs_of k (mkF h l r :: fs) ++ go (k :: l) r
         end) [] kids
  end.

Fixpoint kids_locs (h : hdr) (fs : list frame) (l rest : list node) : list loc :=
  match rest with
  | [] => []
  | k :: r => locs_of k (mkF h l r :: fs) ++ kids_locs h fs (k :: l) r
  end.

(* strict descendants of a context, document order (goquery Find / xpath '//') *)
Definition descendants (c : loc) : list loc := kids_locs (l_h c) (l_ctx c) [] (l_kids c).

(* headers of the ancestors, nearest first, up to the document root *)
Definition anc (d : loc) : list hdr := map f_h (l_ctx d).
(* ... only those strictly below the context c (d is a descendant of c) *)
Definition rel_anc (c d : loc) : list hdr :=
  firstn (List.length (l_ctx d) - List.length (l_ctx c) - 1) (anc d).

(* ---------- attributes and styles *)
Fixpoint assoc (k : bytes) (l : list (bytes * bytes)) : option bytes :=
  match l with
  | [] => None
  | (k', v) :: r => if bytes_eqb k k' then Some v else assoc k r
  end.

Fixpoint assoc_set (k v : bytes) (l : list (bytes * bytes)) : list (bytes * bytes) :=
  match l with
  | [] => [(k, v)]
  | (k', v') :: r => if bytes_eqb k k' then (k, v) :: r else (k', v') :: assoc_set k v r
  end.

Definition style_name : bytes := bs "style".

(* common.SerializeStyles: "k: v; " per declaration *)
Definition ser_style (l : list (bytes * bytes)) : bytes :=
  flat_map (fun kv => fst kv ++ bs ": " ++ snd kv ++ bs "; ") l.

(* GetAttributes: the attributes of the node, style as its raw text *)
Definition style_entry (st : list (bytes * bytes)) : list (bytes * bytes) :=
  match st with [] => [] | _ :: _ => [(style_name, ser_style st)] end.
Definition all_attrs (h : hdr) : list (bytes * bytes) := h_attrs h ++ style_entry (h_style h).

Definition get_attr (h : hdr) (name : bytes) : option bytes := assoc name (all_attrs h).

(* SetAttribute for every name but "style" (style writes go through set_style;
   the raw style text is not re-parsed by the model) *)
Definition set_attr (h : hdr) (name v : bytes) : hdr :=
  if bytes_eqb name style_name then h
  else mkH (h_tag h) (assoc_set name v (h_attrs h)) (h_style h).

Definition get_style (h : hdr) (name : bytes) : option bytes := assoc name (h_style h).
Definition set_style (h : hdr) (name v : bytes) : hdr :=
  mkH (h_tag h) (h_attrs h) (assoc_set name v (h_style h)).

(* class tokens: the class attribute split on spaces *)
Fixpoint words_aux (cur : bytes) (s : bytes) : list bytes :=
  match s with
  | [] => match cur with [] => [] | _ => [rev cur] end
  | b :: r => if (b =? 32)%N
              then match cur with [] => words_aux [] r | _ => rev cur :: words_aux [] r end
              else words_aux (b :: cur) r
  end.
Definition words (s : bytes) : list bytes := words_aux [] s.

Definition h_id (h : hdr) : option bytes := assoc (bs "id") (h_attrs h).
Definition h_cls (h : hdr) : list bytes :=
  match assoc (bs "class") (h_attrs h) with Some v => words v | None => [] end.

(* ---------- selectors *)
Inductive simple := STag (t : bytes) | SClass (c : bytes) | SId (i : bytes).
(* a b c  is  SDesc (SDesc (S1 a) b) c ;  a > b  is  SChild (S1 a) b *)
Inductive sel := S1 (b : simple) | SDesc (a : sel) (b : simple) | SChild (a : sel) (b : simple).

Definition smatch (b : simple) (h : hdr) : bool :=
  match b with
  | STag t => bytes_eqb (h_tag h) t
  | SClass c => existsb (bytes_eqb c) (h_cls h)
  | SId i => match h_id h with Some x => bytes_eqb x i | None => false end
  end.

Fixpoint exists_suffix (f : hdr -> list hdr -> bool) (l : list hdr) : bool :=
  match l with
  | [] => false
  | p :: up => f p up || exists_suffix f up
  end.

(* CSS: the element with header h whose ancestors are a (nearest first) *)
Fixpoint matches (s : sel) (h : hdr) (a : list hdr) {struct s} : bool :=
  match s with
  | S1 b => smatch b h
  | SChild s' b => smatch b h && match a with p :: up => matches s' p up | [] => false end
  | SDesc s' b => smatch b h && exists_suffix (matches s') a
  end.

(* XPath fragment: a path of steps  //test  or  /test  relative to the context
   node, written  .//a//b/c  (htmlquery.CreateXPathNavigator(top) makes the
   context node the root of the navigation) *)
Inductive axis := ADesc | AChild.
Definition xpath := list (axis * simple).

Fixpoint to_xpath (s : sel) : xpath :=
  match s with
  | S1 b => [(ADesc, b)]
  | SDesc a b => to_xpath a ++ [(ADesc, b)]
  | SChild a b => to_xpath a ++ [(AChild, b)]
  end.

(* rs = the steps in reverse; a = ancestors strictly below the context *)
Fixpoint xmatch_rev (rs : xpath) (h : hdr) (a : list hdr) {struct rs} : bool :=
  match rs with
  | [] => false
  | (ax, b) :: rest =>
      smatch b h &&
      match rest with
      | [] => match ax with
              | ADesc => true
              | AChild => match a with [] => true | _ :: _ => false end
              end
      | _ :: _ => match ax with
                  | AChild => match a with p :: up => xmatch_rev rest p up | [] => false end
                  | ADesc => exists_suffix (xmatch_rev rest) a
                  end
      end
  end.

(* ---------- the query family *)
Definition select_all (c : loc) (s : sel) : list loc :=
  filter (fun d => matches s (l_h d) (anc d)) (descendants c).

Definition xselect (c : loc) (x : xpath) : list loc :=
  filter (fun d => xmatch_rev (rev x) (l_h d) (rel_anc c d)) (descendants c).

Definition count_of (l : list loc) : Z := Z.of_nat (List.length l).
Definition exists_of (l : list loc) : bool := 0 <? count_of l.
Definition first_of (l : list loc) : res loc :=
  match l with m :: _ => Ok m | [] => NotFound end.

Definition count (c : loc) (s : sel) : Z := count_of (select_all c s).          (* ELEMENTS_COUNT *)
Definition exists_ (c : loc) (s : sel) : bool := exists_of (select_all c s).    (* ELEMENT_EXISTS *)
Definition first (c : loc) (s : sel) : res loc := first_of (select_all c s).    (* ELEMENT *)

Fixpoint text_of (n : node) : bytes :=
  match n with
  | T s => s
  | E _ kids => concat (map text_of kids)
  end.

Definition inner_text (d : loc) : bytes := concat (map text_of (l_kids d)).     (* INNER_TEXT(el) *)
Definition inner_html (d : loc) : list node := l_kids d.                        (* INNER_HTML(el), as a forest *)

Definition on_first {A B} (f : A -> B) (r : res A) : res B :=
  match r with Ok a => Ok (f a) | NotFound => NotFound | Crash => Crash end.

Definition inner_text_sel (c : loc) (s : sel) : res bytes := on_first inner_text (first c s).       (* INNER_TEXT(c, s) *)
Definition inner_html_sel (c : loc) (s : sel) : res (list node) := on_first inner_html (first c s). (* INNER_HTML(c, s) *)
Definition inner_text_all (c : loc) (s : sel) : list bytes := map inner_text (select_all c s).      (* INNER_TEXT_ALL *)
Definition inner_html_all (c : loc) (s : sel) : list (list node) := map inner_html (select_all c s). (* INNER_HTML_ALL *)

(* ---------- navigation *)
Definition parent (d : loc) : option loc :=
  match l_ctx d with
  | [] => None
  | f :: up => Some (mkL (f_h f) (rev (f_left f) ++ node_of d :: f_right f) up)
  end.

Fixpoint seek_right (ph : hdr) (up : list frame) (left right : list node) : option loc :=
  match right with
  | [] => None
  | T s :: r => seek_right ph up (T s :: left) r
  | E h k :: r => Some (mkL h k (mkF ph left r :: up))
  end.
Fixpoint seek_left (ph : hdr) (up : list frame) (left right : list node) : option loc :=
  match left with
  | [] => None
  | T s :: l => seek_left ph up l (T s :: right)
  | E h k :: l => Some (mkL h k (mkF ph l right :: up))
  end.

Definition next_sibling (d : loc) : option loc :=
  match l_ctx d with
  | [] => None
  | f :: up => seek_right (f_h f) up (node_of d :: f_left f) (f_right f)
  end.
Definition prev_sibling (d : loc) : option loc :=
  match l_ctx d with
  | [] => None
  | f :: up => seek_left (f_h f) up (f_left f) (node_of d :: f_right f)
  end.

Fixpoint child_locs (h : hdr) (fs : list frame) (l rest : list node) : list loc :=
  match rest with
  | [] => []
  | T s :: r => child_locs h fs (T s :: l) r
  | E h' k :: r => mkL h' k (mkF h l r :: fs) :: child_locs h fs (E h' k :: l) r
  end.
Definition children (d : loc) : list loc := child_locs (l_h d) (l_ctx d) [] (l_kids d).

(* ---------- writes (on the located element; the document is [reroot]) *)
Definition set_hdr (d : loc) (h : hdr) : loc := mkL h (l_kids d) (l_ctx d).
Definition set_kids (d : loc) (k : list node) : loc := mkL (l_h d) k (l_ctx d).
Definition set_text (d : loc) (t : bytes) : loc := set_kids d [T t].          (* INNER_TEXT_SET *)
Definition set_html (d : loc) (f : list node) : loc := set_kids d f.          (* INNER_HTML_SET, parsed fragment *)

(* ---------- accessors as outcomes (the repaired code has no failing path) *)
Definition a_text (d : loc) : res bytes := Ok (inner_text d).
Definition a_html (d : loc) : res (list node) := Ok (inner_html d).
Definition a_attrs (d : loc) : res (list (bytes * bytes)) := Ok (all_attrs (l_h d)).
Definition a_attr (d : loc) (n : bytes) : res (option bytes) := Ok (get_attr (l_h d) n).
Definition a_styles (d : loc) : res (list (bytes * bytes)) := Ok (h_style (l_h d)).
Definition a_style (d : loc) (n : bytes) : res (option bytes) := Ok (get_style (l_h d) n).
Definition a_children (d : loc) : res (list loc) := Ok (children d).
Definition a_parent (d : loc) : res (option loc) := Ok (parent d).
Definition a_next (d : loc) : res (option loc) := Ok (next_sibling d).
Definition a_prev (d : loc) : res (option loc) := Ok (prev_sibling d).

(* ---------- mirrors of the pinned tree where it differs *)
(* the XPath engine evaluates a path step by step over a *list* of nodes and
   xpath.go copies that list: when a node of one step lies below another node
   of the same step (nested <div>s under .//div//x) their descendants are
   delivered once per ancestor *)
Fixpoint xeval (steps : xpath) (cur : list loc) : list loc :=
  match steps with
  | [] => cur
  | (ADesc, b) :: r => xeval r (flat_map (fun n => filter (fun d => smatch b (l_h d)) (descendants n)) cur)
  | (AChild, b) :: r => xeval r (flat_map (fun n => filter (fun d => smatch b (l_h d)) (children n)) cur)
  end.
Definition xselect_dups (c : loc) (x : xpath) : list loc := xeval x [c].

(* QuerySelector wrapped the whole selection: the "element" is every match, and
   goquery's Text() of a selection is the text of all its nodes *)
Definition first_pinned (c : loc) (s : sel) : res (list loc) :=
  match select_all c s with [] => NotFound | l => Ok l end.
Definition sel_text (l : list loc) : bytes := concat (map inner_text l).
Definition inner_text_first_pinned (c : loc) (s : sel) : res bytes :=
  on_first sel_text (first_pinned c s).

(* GetStyle -> ensureStyles (styles == nil) -> parseStyles -> GetAttribute("style")
   -> GetStyles -> ensureStyles (styles still nil) -> ... : each round consumes
   stack and none returns; the Go runtime ends the process *)
Fixpoint get_style_pinned (fuel : nat) (h : hdr) (name : bytes) : res (option bytes) :=
  match fuel with
  | O => Crash
  | S f => (* ensureStyles: el.styles == nil, so parseStyles runs *)
           get_style_pinned f h name
  end.

(* ---------- one element wrapper under a history of reads and writes

   An HTMLElement keeps, next to the node, two lazily filled caches: the
   attribute object (ensureAttrs) and the parsed inline style (ensureStyles).
   Every write goes to the node and to the attribute cache; a write of the
   "style" attribute drops the style cache.  [sp_*] is the cache-free meaning of
   a history (every read sees the writes so far), [w_*] mirrors element.go with
   its caches; Proofs/DomProofs.v shows they agree on every history.

   The style attribute is kept as the declarations its text denotes (None: no
   such attribute); the order of SerializeStyles is Go map order, the check
   compares declarations sorted by name. *)
Definition decls := list (bytes * bytes).

Fixpoint assoc_del (k : bytes) (l : decls) : decls :=
  match l with
  | [] => []
  | (k', v) :: r => if bytes_eqb k k' then assoc_del k r else (k', v) :: assoc_del k r
  end.
Definition set_many (kvs l : decls) : decls := fold_left (fun acc kv => assoc_set (fst kv) (snd kv) acc) kvs l.
Definition del_many (ks : list bytes) (l : decls) : decls := fold_left (fun acc k => assoc_del k acc) ks l.

(* common.DeserializeStyles on the subset  name ':' value ';' ... : names and
   values trimmed of spaces, a later declaration of a name replaces the earlier
   one, pieces without ':' or without a name are dropped *)
Fixpoint split_on (c : N) (cur s : bytes) : list bytes :=
  match s with
  | [] => [rev cur]
  | b :: r => if (b =? c)%N then rev cur :: split_on c [] r else split_on c (b :: cur) r
  end.
Fixpoint ltrim (s : bytes) : bytes :=
  match s with
  | b :: r => if (b =? 32)%N then ltrim r else s
  | [] => []
  end.
Definition trim (s : bytes) : bytes := rev (ltrim (rev (ltrim s))).
Fixpoint cut_colon (cur s : bytes) : option (bytes * bytes) :=
  match s with
  | [] => None
  | b :: r => if (b =? 58)%N then Some (rev cur, r) else cut_colon (b :: cur) r
  end.
Definition parse_style (raw : bytes) : decls :=
  fold_left (fun acc piece =>
               match cut_colon [] piece with
               | Some (k, v) => match trim k with [] => acc | k' => assoc_set k' (trim v) acc end
               | None => acc
               end) (split_on 59 [] raw) [].

(* the attributes of the node *)
Record est := mkS { s_attrs : decls; s_style : option decls }.
Definition est_of (h : hdr) : est :=
  mkS (h_attrs h) (match h_style h with [] => None | l => Some l end).
Definition sp_styles (s : est) : decls := match s_style s with Some d => d | None => [] end.

(* an attribute value as read: text, or for "style" its declarations *)
Inductive aval := AV (v : bytes) | AS (d : decls).
Definition est_get (s : est) (n : bytes) : option aval :=
  if bytes_eqb n style_name then option_map AS (s_style s) else option_map AV (assoc n (s_attrs s)).
Definition est_all (s : est) : list (bytes * aval) :=
  map (fun kv => (fst kv, AV (snd kv))) (s_attrs s) ++
  match s_style s with Some d => [(style_name, AS d)] | None => [] end.

(* reads *)
Inductive rop :=
| RStyle (names : list bytes)     (* STYLE_GET(e, names..), e.style[name]: GetStyle *)
| RStyles                         (* e.style: GetStyles *)
| RAttrGet (names : list bytes)   (* ATTR_GET(e, names..): GetAttributes, then the names *)
| RAttrs                          (* e.attributes: GetAttributes *)
| RAttrMember (n : bytes).        (* e.attributes[n]: GetAttribute, which answers "style" with GetStyles *)
Inductive rd :=
| RdOpt (l : list (option bytes))
| RdDecls (d : decls)
| RdA (l : list (option aval))
| RdAll (l : list (bytes * aval)).

(* one attribute assignment: name and text (the text of "style" is parsed), or
   the style attribute given as declarations (ATTR_SET(e, "style", {..})) *)
Inductive aset := SetA (k v : bytes) | SetS (d : decls).
Definition is_style (a : aset) : bool :=
  match a with SetA k _ => bytes_eqb k style_name | SetS _ => true end.

Inductive hop :=
| Rd (r : rop)                    (* through the wrapper under test *)
| RdFresh (r : rop)               (* through a new wrapper of the same node: ELEMENT(d, s) again *)
| WAttr (a : aset)                (* ATTR_SET(e, name, value) *)
| WAttrs (l : list aset)          (* ATTR_SET(e, {name: value, ..}) *)
| WStyle (k v : bytes)            (* STYLE_SET(e, name, value) *)
| WStyles (kvs : decls)           (* STYLE_SET(e, {name: value, ..}) *)
| RmAttr (names : list bytes)     (* ATTR_REMOVE(e, names..) *)
| RmStyle (names : list bytes).   (* STYLE_REMOVE(e, names..) *)

(* --- cache-free meaning *)
Definition sp_read (r : rop) (s : est) : rd :=
  match r with
  | RStyle names => RdOpt (map (fun n => assoc n (sp_styles s)) names)
  | RStyles => RdDecls (sp_styles s)
  | RAttrGet names => RdA (map (est_get s) names)
  | RAttrs => RdAll (est_all s)
  | RAttrMember n => if bytes_eqb n style_name then RdDecls (sp_styles s) else RdA [est_get s n]
  end.

Definition sp_set (a : aset) (s : est) : est :=
  match a with
  | SetS d => mkS (s_attrs s) (Some d)
  | SetA k v => if bytes_eqb k style_name then mkS (s_attrs s) (Some (parse_style v))
                else mkS (assoc_set k v (s_attrs s)) (s_style s)
  end.
Definition sp_rm (k : bytes) (s : est) : est :=
  if bytes_eqb k style_name then mkS (s_attrs s) None else mkS (assoc_del k (s_attrs s)) (s_style s).

Definition sp_write (o : hop) (s : est) : est :=
  match o with
  | WAttr a => sp_set a s
  | WAttrs l => fold_left (fun s a => sp_set a s) l s
  | WStyle k v => sp_set (SetS (assoc_set k v (sp_styles s))) s
  | WStyles kvs => sp_set (SetS (set_many kvs (sp_styles s))) s
  | RmAttr names => fold_left (fun s n => sp_rm n s) names s
  | RmStyle [] => s
  | RmStyle names => sp_set (SetS (del_many names (sp_styles s))) s
  | Rd _ | RdFresh _ => s
  end.

Definition sp_state (ops : list hop) (s : est) : est := fold_left (fun s o => sp_write o s) ops s.

Fixpoint sp_run (ops : list hop) (s : est) : list rd :=
  match ops with
  | [] => []
  | Rd r :: rest => sp_read r s :: sp_run rest s
  | RdFresh r :: rest => sp_read r s :: sp_run rest s
  | o :: rest => sp_run rest (sp_write o s)
  end.

(* --- element.go: node, attribute cache, style cache *)
Record wrap := mkW { w_node : est; w_attrs : option est; w_styles : option decls }.
Definition fresh (n : est) : wrap := mkW n None None.

Definition ensure_attrs (w : wrap) : wrap :=
  match w_attrs w with Some _ => w | None => mkW (w_node w) (Some (w_node w)) (w_styles w) end.
(* parseStyles reads the node's style attribute *)
Definition ensure_styles (w : wrap) : wrap :=
  match w_styles w with Some _ => w | None => mkW (w_node w) (w_attrs w) (Some (sp_styles (w_node w))) end.
Definition the_attrs (w : wrap) : est := match w_attrs w with Some a => a | None => mkS [] None end.
Definition the_styles (w : wrap) : decls := match w_styles w with Some d => d | None => [] end.

(* SetAttribute: ensureAttrs; name == "style" drops the parsed styles; cache and node are written *)
Definition w_set_attribute (a : aset) (w : wrap) : wrap :=
  let w1 := ensure_attrs w in
  mkW (sp_set a (w_node w1)) (Some (sp_set a (the_attrs w1))) (if is_style a then None else w_styles w1).

(* RemoveAttribute; [inval] = the parsed styles are dropped when "style" is removed
   (false mirrors the tree before its repair, found by this check) *)
Definition w_remove_attribute (inval : bool) (names : list bytes) (w : wrap) : wrap :=
  fold_left (fun w n => mkW (sp_rm n (w_node w)) (Some (sp_rm n (the_attrs w)))
                            (if inval && bytes_eqb n style_name then None else w_styles w))
            names (ensure_attrs w).

(* SetStyle / SetStyles / RemoveStyle: ensureStyles, change the parsed styles,
   SetAttribute("style", SerializeStyles(styles)) *)
Definition w_write_styles (f : decls -> decls) (w : wrap) : wrap :=
  let w1 := ensure_styles w in
  let st := f (the_styles w1) in
  w_set_attribute (SetS st) (mkW (w_node w1) (w_attrs w1) (Some st)).

Definition w_read (r : rop) (w : wrap) : wrap * rd :=
  match r with
  | RStyle names => let w1 := ensure_styles w in (w1, RdOpt (map (fun n => assoc n (the_styles w1)) names))
  | RStyles => let w1 := ensure_styles w in (w1, RdDecls (the_styles w1))
  | RAttrGet names => let w1 := ensure_attrs w in (w1, RdA (map (est_get (the_attrs w1)) names))
  | RAttrs => let w1 := ensure_attrs w in (w1, RdAll (est_all (the_attrs w1)))
  | RAttrMember n =>
      let w1 := ensure_attrs w in
      if bytes_eqb n style_name then let w2 := ensure_styles w1 in (w2, RdDecls (the_styles w2))
      else (w1, RdA [est_get (the_attrs w1) n])
  end.

Definition w_write (inval : bool) (o : hop) (w : wrap) : wrap :=
  match o with
  | WAttr a => w_set_attribute a w
  | WAttrs l => fold_left (fun w a => w_set_attribute a w) l (ensure_attrs w)
  | WStyle k v => w_write_styles (assoc_set k v) w
  | WStyles kvs => w_write_styles (set_many kvs) w
  | RmAttr names => w_remove_attribute inval names w
  | RmStyle [] => w
  | RmStyle names => w_write_styles (del_many names) w
  | Rd _ | RdFresh _ => w
  end.

Fixpoint w_run (inval : bool) (ops : list hop) (w : wrap) : list rd :=
  match ops with
  | [] => []
  | Rd r :: rest => snd (w_read r w) :: w_run inval rest (fst (w_read r w))
  | RdFresh r :: rest => snd (w_read r (fresh (w_node w))) :: w_run inval rest w
  | o :: rest => w_run inval rest (w_write inval o w)
  end.
