(* Dom.v — model of the static (HTTP) driver's DOM queries (C18).

   Mirrors pkg/drivers/http/{element,document,xpath}.go and the PARSE-based
   functions of pkg/stdlib/html on the generator's well-formed subset:

   * an element carries its tag, its attribute list exactly as in the source
     (id and class are ordinary attributes, as in html.Node.Attr) and — kept
     apart — its inline style as an ordered key/value list (the "style"
     attribute is the serialisation of that list, common.SerializeStyles);
   * a query context is an element *located* in its document (a zipper), because
     goquery's Find filters the descendants of the context but a compound CSS
     selector is matched against the whole ancestor chain (cascadia walks
     n.Parent to the root), while htmlquery evaluates an XPath with the context
     node as the navigator's root;
   * the accessor family is defined from [select_all] (document order =
     pre-order of the descendants of the context).

   Definitions only; lemmas are in Proofs/DomProofs.v.  HTML5 tree
   construction, cascadia and the XPath engine are oracles: the model states
   what they answer on the generated subset and the correspondence check
   compares. *)
From Ferret Require Import Base.

(* ---------- trees *)
Record hdr := mkH {
  h_tag : bytes;
  h_attrs : list (bytes * bytes);   (* every attribute but style, source order *)
  h_style : list (bytes * bytes)    (* inline style declarations, source order *)
}.

Inductive node :=
| T (s : bytes)                      (* text node *)
| E (h : hdr) (kids : list node).    (* element *)

(* zipper: the element in focus, and for every ancestor (nearest first) its
   header, the siblings to the left (nearest first) and to the right *)
Record frame := mkF { f_h : hdr; f_left : list node; f_right : list node }.
Record loc := mkL { l_h : hdr; l_kids : list node; l_ctx : list frame }.

(* outcome of an accessor: Go error ErrNotFound, or a fatal crash of the process *)
Inductive res (A : Type) := Ok (a : A) | NotFound | Crash.
Arguments Ok {A} a. Arguments NotFound {A}. Arguments Crash {A}.

Definition node_of (d : loc) : node := E (l_h d) (l_kids d).

(* the document a located element lives in *)
Fixpoint plug (n : node) (fs : list frame) : node :=
  match fs with
  | [] => n
  | f :: up => plug (E (f_h f) (rev (f_left f) ++ n :: f_right f)) up
  end.

Definition empty_hdr : hdr := mkH [] [] [].
Definition to_loc (n : node) : loc :=
  match n with E h k => mkL h k [] | T _ => mkL empty_hdr [] [] end.
Definition reroot (d : loc) : loc := to_loc (plug (node_of d) (l_ctx d)).

(* element and all element descendants, pre-order, each with its context *)
Fixpoint locs_of (n : node) (fs : list frame) {struct n} : list loc :=
  match n with
  | T _ => []
  | E h kids =>
      mkL h kids fs ::
      (fix go (l rest : list node) {struct rest} : list loc :=
         match rest with
         | [] => []
         | k :: r => locs_of k (mkF h l r :: fs) ++ go (k :: l) r
         end) [] kids
  end.

Fixpoint kids_locs (h : hdr) (fs : list frame) (l rest : list node) : list loc :=
  match rest with
  | [] => []
  | k :: r => locs_of k (mkF h l r :: fs) ++ kids_locs h fs (k :: l) r
  end.

(* strict descendants of a context, document order (goquery Find / xpath '//') *)
Definition descendants (c : loc) : list loc := kids_locs (l_h c) (l_ctx c) [] (l_kids c).

(* headers of the ancestors, nearest first, up to the document root *)
Definition anc (d : loc) : list hdr := map f_h (l_ctx d).
(* ... only those strictly below the context c (d is a descendant of c) *)
Definition rel_anc (c d : loc) : list hdr :=
  firstn (List.length (l_ctx d) - List.length (l_ctx c) - 1) (anc d).

(* ---------- attributes and styles *)
Fixpoint assoc (k : bytes) (l : list (bytes * bytes)) : option bytes :=
  match l with
  | [] => None
  | (k', v) :: r => if bytes_eqb k k' then Some v else assoc k r
  end.

Fixpoint assoc_set (k v : bytes) (l : list (bytes * bytes)) : list (bytes * bytes) :=
  match l with
  | [] => [(k, v)]
  | (k', v') :: r => if bytes_eqb k k' then (k, v) :: r else (k', v') :: assoc_set k v r
  end.

Definition style_name : bytes := bs "style".

(* common.SerializeStyles: "k: v; " per declaration *)
Definition ser_style (l : list (bytes * bytes)) : bytes :=
  flat_map (fun kv => fst kv ++ bs ": " ++ snd kv ++ bs "; ") l.

(* GetAttributes: the attributes of the node, style as its raw text *)
Definition style_entry (st : list (bytes * bytes)) : list (bytes * bytes) :=
  match st with [] => [] | _ :: _ => [(style_name, ser_style st)] end.
Definition all_attrs (h : hdr) : list (bytes * bytes) := h_attrs h ++ style_entry (h_style h).

Definition get_attr (h : hdr) (name : bytes) : option bytes := assoc name (all_attrs h).

(* SetAttribute for every name but "style" (style writes go through set_style;
   the raw style text is not re-parsed by the model) *)
Definition set_attr (h : hdr) (name v : bytes) : hdr :=
  if bytes_eqb name style_name then h
  else mkH (h_tag h) (assoc_set name v (h_attrs h)) (h_style h).

Definition get_style (h : hdr) (name : bytes) : option bytes := assoc name (h_style h).
Definition set_style (h : hdr) (name v : bytes) : hdr :=
  mkH (h_tag h) (h_attrs h) (assoc_set name v (h_style h)).

(* class tokens: the class attribute split on spaces *)
Fixpoint words_aux (cur : bytes) (s : bytes) : list bytes :=
  match s with
  | [] => match cur with [] => [] | _ => [rev cur] end
  | b :: r => if (b =? 32)%N
              then match cur with [] => words_aux [] r | _ => rev cur :: words_aux [] r end
              else words_aux (b :: cur) r
  end.
Definition words (s : bytes) : list bytes := words_aux [] s.

Definition h_id (h : hdr) : option bytes := assoc (bs "id") (h_attrs h).
Definition h_cls (h : hdr) : list bytes :=
  match assoc (bs "class") (h_attrs h) with Some v => words v | None => [] end.

(* ---------- selectors *)
Inductive simple := STag (t : bytes) | SClass (c : bytes) | SId (i : bytes).
(* a b c  is  SDesc (SDesc (S1 a) b) c ;  a > b  is  SChild (S1 a) b *)
Inductive sel := S1 (b : simple) | SDesc (a : sel) (b : simple) | SChild (a : sel) (b : simple).

Definition smatch (b : simple) (h : hdr) : bool :=
  match b with
  | STag t => bytes_eqb (h_tag h) t
  | SClass c => existsb (bytes_eqb c) (h_cls h)
  | SId i => match h_id h with Some x => bytes_eqb x i | None => false end
  end.

Fixpoint exists_suffix (f : hdr -> list hdr -> bool) (l : list hdr) : bool :=
  match l with
  | [] => false
  | p :: up => f p up || exists_suffix f up
  end.

(* CSS: the element with header h whose ancestors are a (nearest first) *)
Fixpoint matches (s : sel) (h : hdr) (a : list hdr) {struct s} : bool :=
  match s with
  | S1 b => smatch b h
  | SChild s' b => smatch b h && match a with p :: up => matches s' p up | [] => false end
  | SDesc s' b => smatch b h && exists_suffix (matches s') a
  end.

(* XPath fragment: a path of steps  //test  or  /test  relative to the context
   node, written  .//a//b/c  (htmlquery.CreateXPathNavigator(top) makes the
   context node the root of the navigation) *)
Inductive axis := ADesc | AChild.
Definition xpath := list (axis * simple).

Fixpoint to_xpath (s : sel) : xpath :=
  match s with
  | S1 b => [(ADesc, b)]
  | SDesc a b => to_xpath a ++ [(ADesc, b)]
  | SChild a b => to_xpath a ++ [(AChild, b)]
  end.

(* rs = the steps in reverse; a = ancestors strictly below the context *)
Fixpoint xmatch_rev (rs : xpath) (h : hdr) (a : list hdr) {struct rs} : bool :=
  match rs with
  | [] => false
  | (ax, b) :: rest =>
      smatch b h &&
      match rest with
      | [] => match ax with
              | ADesc => true
              | AChild => match a with [] => true | _ :: _ => false end
              end
      | _ :: _ => match ax with
                  | AChild => match a with p :: up => xmatch_rev rest p up | [] => false end
                  | ADesc => exists_suffix (xmatch_rev rest) a
                  end
      end
  end.

(* ---------- the query family *)
Definition select_all (c : loc) (s : sel) : list loc :=
  filter (fun d => matches s (l_h d) (anc d)) (descendants c).

Definition xselect (c : loc) (x : xpath) : list loc :=
  filter (fun d => xmatch_rev (rev x) (l_h d) (rel_anc c d)) (descendants c).

Definition count_of (l : list loc) : Z := Z.of_nat (List.length l).
Definition exists_of (l : list loc) : bool := 0 <? count_of l.
Definition first_of (l : list loc) : res loc :=
  match l with m :: _ => Ok m | [] => NotFound end.

Definition count (c : loc) (s : sel) : Z := count_of (select_all c s).          (* ELEMENTS_COUNT *)
Definition exists_ (c : loc) (s : sel) : bool := exists_of (select_all c s).    (* ELEMENT_EXISTS *)
Definition first (c : loc) (s : sel) : res loc := first_of (select_all c s).    (* ELEMENT *)

Fixpoint text_of (n : node) : bytes :=
  match n with
  | T s => s
  | E _ kids => concat (map text_of kids)
  end.

Definition inner_text (d : loc) : bytes := concat (map text_of (l_kids d)).     (* INNER_TEXT(el) *)
Definition inner_html (d : loc) : list node := l_kids d.                        (* INNER_HTML(el), as a forest *)

Definition on_first {A B} (f : A -> B) (r : res A) : res B :=
  match r with Ok a => Ok (f a) | NotFound => NotFound | Crash => Crash end.

Definition inner_text_sel (c : loc) (s : sel) : res bytes := on_first inner_text (first c s).       (* INNER_TEXT(c, s) *)
Definition inner_html_sel (c : loc) (s : sel) : res (list node) := on_first inner_html (first c s). (* INNER_HTML(c, s) *)
Definition inner_text_all (c : loc) (s : sel) : list bytes := map inner_text (select_all c s).      (* INNER_TEXT_ALL *)
Definition inner_html_all (c : loc) (s : sel) : list (list node) := map inner_html (select_all c s). (* INNER_HTML_ALL *)

(* ---------- navigation *)
Definition parent (d : loc) : option loc :=
  match l_ctx d with
  | [] => None
  | f :: up => Some (mkL (f_h f) (rev (f_left f) ++ node_of d :: f_right f) up)
  end.

Fixpoint seek_right (ph : hdr) (up : list frame) (left right : list node) : option loc :=
  match right with
  | [] => None
  | T s :: r => seek_right ph up (T s :: left) r
  | E h k :: r => Some (mkL h k (mkF ph left r :: up))
  end.
Fixpoint seek_left (ph : hdr) (up : list frame) (left right : list node) : option loc :=
  match left with
  | [] => None
  | T s :: l => seek_left ph up l (T s :: right)
  | E h k :: l => Some (mkL h k (mkF ph l right :: up))
  end.

Definition next_sibling (d : loc) : option loc :=
  match l_ctx d with
  | [] => None
  | f :: up => seek_right (f_h f) up (node_of d :: f_left f) (f_right f)
  end.
Definition prev_sibling (d : loc) : option loc :=
  match l_ctx d with
  | [] => None
  | f :: up => seek_left (f_h f) up (f_left f) (node_of d :: f_right f)
  end.

Fixpoint child_locs (h : hdr) (fs : list frame) (l rest : list node) : list loc :=
  match rest with
  | [] => []
  | T s :: r => child_locs h fs (T s :: l) r
  | E h' k :: r => mkL h' k (mkF h l r :: fs) :: child_locs h fs (E h' k :: l) r
  end.
Definition children (d : loc) : list loc := child_locs (l_h d) (l_ctx d) [] (l_kids d).

(* ---------- writes (on the located element; the document is [reroot]) *)
Definition set_hdr (d : loc) (h : hdr) : loc := mkL h (l_kids d) (l_ctx d).
Definition set_kids (d : loc) (k : list node) : loc := mkL (l_h d) k (l_ctx d).
Definition set_text (d : loc) (t : bytes) : loc := set_kids d [T t].          (* INNER_TEXT_SET *)
Definition set_html (d : loc) (f : list node) : loc := set_kids d f.          (* INNER_HTML_SET, parsed fragment *)

(* ---------- accessors as outcomes (the repaired code has no failing path) *)
Definition a_text (d : loc) : res bytes := Ok (inner_text d).
Definition a_html (d : loc) : res (list node) := Ok (inner_html d).
Definition a_attrs (d : loc) : res (list (bytes * bytes)) := Ok (all_attrs (l_h d)).
Definition a_attr (d : loc) (n : bytes) : res (option bytes) := Ok (get_attr (l_h d) n).
Definition a_styles (d : loc) : res (list (bytes * bytes)) := Ok (h_style (l_h d)).
Definition a_style (d : loc) (n : bytes) : res (option bytes) := Ok (get_style (l_h d) n).
Definition a_children (d : loc) : res (list loc) := Ok (children d).
Definition a_parent (d : loc) : res (option loc) := Ok (parent d).
Definition a_next (d : loc) : res (option loc) := Ok (next_sibling d).
Definition a_prev (d : loc) : res (option loc) := Ok (prev_sibling d).

(* ---------- mirrors of the pinned tree where it differs *)
(* the XPath engine evaluates a path step by step over a *list* of nodes and
   xpath.go copies that list: when a node of one step lies below another node
   of the same step (nested <div>s under .//div//x) their descendants are
   delivered once per ancestor *)
Fixpoint xeval (steps : xpath) (cur : list loc) : list loc :=
  match steps with
  | [] => cur
  | (ADesc, b) :: r => xeval r (flat_map (fun n => filter (fun d => smatch b (l_h d)) (descendants n)) cur)
  | (AChild, b) :: r => xeval r (flat_map (fun n => filter (fun d => smatch b (l_h d)) (children n)) cur)
  end.
Definition xselect_dups (c : loc) (x : xpath) : list loc := xeval x [c].

(* QuerySelector wrapped the whole selection: the "element" is every match, and
   goquery's Text() of a selection is the text of all its nodes *)
Definition first_pinned (c : loc) (s : sel) : res (list loc) :=
  match select_all c s with [] => NotFound | l => Ok l end.
Definition sel_text (l : list loc) : bytes := concat (map inner_text l).
Definition inner_text_first_pinned (c : loc) (s : sel) : res bytes :=
  on_first sel_text (first_pinned c s).

(* GetStyle -> ensureStyles (styles == nil) -> parseStyles -> GetAttribute("style")
   -> GetStyles -> ensureStyles (styles still nil) -> ... : each round consumes
   stack and none returns; the Go runtime ends the process *)
Fixpoint get_style_pinned (fuel : nat) (h : hdr) (name : bytes) : res (option bytes) :=
  match fuel with
  | O => Crash
  | S f => (* ensureStyles: el.styles == nil, so parseStyles runs *)
           get_style_pinned f h name
  end.
